// Replay of a solver counterexample for property C20, harness inverse_law_3x3
// (package nitrogql-utils, harness file kv/harness/utils/relpath_h.rs).
// Re-run: /verif/bin/check C20 --replay /verif/replays/C20/inverse_law_3x3.rs
// Failing check: assertion ""C20: relative path between two files is not empty""
#[test]
fn kani_concrete_playback_inverse_law_3x3_11941801923826534742() {
    let concrete_vals: std::vec::Vec<std::vec::Vec<u8>> = std::vec![
        // 3ul
        std::vec![3, 0, 0, 0, 0, 0, 0, 0],
        // 1
        std::vec![1],
        // 3
        std::vec![3],
        // 0
        std::vec![0],
        // 3ul
        std::vec![3, 0, 0, 0, 0, 0, 0, 0],
        // 0
        std::vec![0],
        // 3
        std::vec![3],
        // 1
        std::vec![1],
    ];
    kani::concrete_playback_run(concrete_vals, inverse_law_3x3);
}
