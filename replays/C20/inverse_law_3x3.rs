// Replay of a solver counterexample for property C20, harness inverse_law_3x3
// (package nitrogql-utils, harness file kv/harness/utils/relpath_h.rs).
// Re-run: /verif/bin/check C20 --replay /verif/replays/C20/inverse_law_3x3.rs
// Failing check: assertion ""C20: resolve(a, relative(a, b)) == normalize(b)""
#[test]
fn kani_concrete_playback_inverse_law_3x3_13408357922211959747() {
    let concrete_vals: Vec<Vec<u8>> = vec![
        // 3ul
        vec![3, 0, 0, 0, 0, 0, 0, 0],
        // 1
        vec![1],
        // 0
        vec![0],
        // 1
        vec![1],
        // 3ul
        vec![3, 0, 0, 0, 0, 0, 0, 0],
        // 0
        vec![0],
        // 0
        vec![0],
        // 1
        vec![1],
    ];
    kani::concrete_playback_run(concrete_vals, inverse_law_3x3);
}
