// Replay of a solver counterexample for property C20, harness resolve_spec_4x4
// (package nitrogql-utils, harness file kv/harness/utils/relpath_h.rs).
// Re-run: /verif/bin/check C20 --replay /verif/replays/C20/resolve_spec_4x4.rs
// Failing check: assertion ""C20: resolve(a, r) == normalize(dirname(a) / r)""
#[test]
fn kani_concrete_playback_resolve_spec_4x4_12945487943630235886() {
    let concrete_vals: std::vec::Vec<std::vec::Vec<u8>> = std::vec![
        // 4ul
        std::vec![4, 0, 0, 0, 0, 0, 0, 0],
        // 0
        std::vec![0],
        // 0
        std::vec![0],
        // 3
        std::vec![3],
        // 0
        std::vec![0],
        // 4ul
        std::vec![4, 0, 0, 0, 0, 0, 0, 0],
        // 3
        std::vec![3],
        // 0
        std::vec![0],
        // 0
        std::vec![0],
        // 1
        std::vec![1],
    ];
    kani::concrete_playback_run(concrete_vals, resolve_spec_4x4);
}
