// Replay of a solver counterexample for property C20, harness inverse_law_4x4
// (package nitrogql-utils, harness file kv/harness/utils/relpath_h.rs).
// Re-run: /verif/bin/check C20 --replay /verif/replays/C20/inverse_law_4x4.rs
// Failing check: assertion ""pathmodel capacity (harness bound)""
#[test]
fn kani_concrete_playback_inverse_law_4x4_6756170904393219522() {
    let concrete_vals: std::vec::Vec<std::vec::Vec<u8>> = std::vec![
        // 4ul
        std::vec![4, 0, 0, 0, 0, 0, 0, 0],
        // 1
        std::vec![1],
        // 0
        std::vec![0],
        // 0
        std::vec![0],
        // 0
        std::vec![0],
        // 4ul
        std::vec![4, 0, 0, 0, 0, 0, 0, 0],
        // 0
        std::vec![0],
        // 1
        std::vec![1],
        // 1
        std::vec![1],
        // 1
        std::vec![1],
    ];
    kani::concrete_playback_run(concrete_vals, inverse_law_4x4);
}
