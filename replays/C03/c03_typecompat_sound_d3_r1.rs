// Replay of a solver counterexample for property C03, harness c03_typecompat_sound_d3_r1
// (package nitrogql-checker, harness file kv/harness/checker/typecompat_h.rs).
// Re-run: /verif/bin/check C03 --replay /verif/replays/C03/c03_typecompat_sound_d3_r1.rs
// Failing check: assertion ""C03: variable usage accepted by check is allowed by AreTypesCompatible""
#[test]
fn kani_concrete_playback_c03_typecompat_sound_d3_r1_16706006735055022975() {
    let concrete_vals: std::vec::Vec<std::vec::Vec<u8>> = std::vec![
        // 7
        std::vec![7, 0, 0, 0],
        // 23
        std::vec![23, 0, 0, 0],
        // 0ul
        std::vec![0, 0, 0, 0, 0, 0, 0, 0],
        // 0ul
        std::vec![0, 0, 0, 0, 0, 0, 0, 0],
    ];
    kani::concrete_playback_run(concrete_vals, c03_typecompat_sound_d3_r1);
}
