// Replay of a solver counterexample for property C06, harness mapping_delta_k4
// (package sourcemap-writer, harness file kv/harness/sourcemap_writer/mapping_h.rs).
// Re-run: /verif/bin/check C06 --replay /verif/replays/C06/mapping_delta_k4.rs
// Failing check: assertion "attempt to add with overflow"
#[test]
fn kani_concrete_playback_mapping_delta_k4_13176970218169802509() {
    let concrete_vals: std::vec::Vec<std::vec::Vec<u8>> = std::vec![
        // 3ul
        std::vec![3, 0, 0, 0, 0, 0, 0, 0],
        // 3463268124720050688ul
        std::vec![0, 50, 223, 159, 2, 0, 16, 48],
        // 4ul
        std::vec![4, 0, 0, 0, 0, 0, 0, 0],
        // 0ul
        std::vec![0, 0, 0, 0, 0, 0, 0, 0],
        // 0ul
        std::vec![0, 0, 0, 0, 0, 0, 0, 0],
        // 1
        std::vec![1],
        // 2594073385365405696ul
        std::vec![0, 0, 0, 0, 0, 0, 0, 36],
        // 3ul
        std::vec![3, 0, 0, 0, 0, 0, 0, 0],
        // 3463268113447911424ul
        std::vec![0, 0, 0, 0, 0, 0, 16, 48],
        // 2918332558536081419ul
        std::vec![11, 0, 0, 0, 0, 0, 128, 40],
        // 2612087783874887680ul
        std::vec![0, 0, 0, 0, 0, 0, 64, 36],
        // 144115188075855872ul
        std::vec![0, 0, 0, 0, 0, 0, 0, 2],
        // 1
        std::vec![1],
        // 2197756618425237504ul
        std::vec![0, 0, 0, 16, 0, 0, 128, 30],
        // 3ul
        std::vec![3, 0, 0, 0, 0, 0, 0, 0],
        // 576460752303423488ul
        std::vec![0, 0, 0, 0, 0, 0, 0, 8],
        // 3458764513820540928ul
        std::vec![0, 0, 0, 0, 0, 0, 0, 48],
        // 2738188573441261559ul
        std::vec![247, 255, 255, 255, 255, 255, 255, 37],
        // 2305843009213693952ul
        std::vec![0, 0, 0, 0, 0, 0, 0, 32],
        // 1
        std::vec![1],
        // 4557642823167374336ul
        std::vec![0, 244, 255, 15, 0, 0, 64, 63],
        // 3ul
        std::vec![3, 0, 0, 0, 0, 0, 0, 0],
        // 6755399441056263ul
        std::vec![7, 2, 0, 0, 0, 0, 24, 0],
        // 2846274964498153467ul
        std::vec![251, 255, 255, 255, 255, 255, 127, 39],
        // 3873095679538626572ul
        std::vec![12, 0, 0, 0, 0, 0, 192, 53],
        // 1729382256910270464ul
        std::vec![0, 0, 0, 0, 0, 0, 0, 24],
        // 1
        std::vec![1],
        // 4611686018427387903ul
        std::vec![255, 255, 255, 255, 255, 255, 255, 63],
    ];
    kani::concrete_playback_run(concrete_vals, mapping_delta_k4);
}
