// Replay of a solver counterexample for property C06, harness mapping_delta_k2
// (package sourcemap-writer, harness file kv/harness/sourcemap_writer/mapping_h.rs).
// Re-run: /verif/bin/check C06 --replay /verif/replays/C06/mapping_delta_k2.rs
// Failing check: assertion ""C06: decoded original position == input""
#[test]
fn kani_concrete_playback_mapping_delta_k2_17893901423066049432() {
    let concrete_vals: std::vec::Vec<std::vec::Vec<u8>> = std::vec![
        // 0ul
        std::vec![0, 0, 0, 0, 0, 0, 0, 0],
        // 2ul
        std::vec![2, 0, 0, 0, 0, 0, 0, 0],
        // 4611686018427387902ul
        std::vec![254, 255, 255, 255, 255, 255, 255, 63],
        // 4611686016279904255ul
        std::vec![255, 255, 255, 127, 255, 255, 255, 63],
        // 2305843009213693951ul
        std::vec![255, 255, 255, 255, 255, 255, 255, 31],
        // 1
        std::vec![1],
        // 2305843009213693952ul
        std::vec![0, 0, 0, 0, 0, 0, 0, 32],
        // 2ul
        std::vec![2, 0, 0, 0, 0, 0, 0, 0],
        // 1ul
        std::vec![1, 0, 0, 0, 0, 0, 0, 0],
        // 0ul
        std::vec![0, 0, 0, 0, 0, 0, 0, 0],
        // 0ul
        std::vec![0, 0, 0, 0, 0, 0, 0, 0],
        // 1152921504606846975ul
        std::vec![255, 255, 255, 255, 255, 255, 255, 15],
        // 0
        std::vec![0],
    ];
    kani::concrete_playback_run(concrete_vals, mapping_delta_k2);
}
