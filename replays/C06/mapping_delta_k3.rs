// Replay of a solver counterexample for property C06, harness mapping_delta_k3
// (package sourcemap-writer, harness file kv/harness/sourcemap_writer/mapping_h.rs).
// Re-run: /verif/bin/check C06 --replay /verif/replays/C06/mapping_delta_k3.rs
// Failing check: assertion "attempt to add with overflow"
#[test]
fn kani_concrete_playback_mapping_delta_k3_9805386861611631968() {
    let concrete_vals: Vec<Vec<u8>> = vec![
        // 3ul
        vec![3, 0, 0, 0, 0, 0, 0, 0],
        // 4611686018427387903ul
        vec![255, 255, 255, 255, 255, 255, 255, 63],
        // 4611685949707911168ul
        vec![0, 0, 0, 0, 240, 255, 255, 63],
        // 2305843009213693952ul
        vec![0, 0, 0, 0, 0, 0, 0, 32],
        // 2305843009213693953ul
        vec![1, 0, 0, 0, 0, 0, 0, 32],
        // 0
        vec![0],
        // 5ul
        vec![5, 0, 0, 0, 0, 0, 0, 0],
        // 3ul
        vec![3, 0, 0, 0, 0, 0, 0, 0],
        // 70866960320ul
        vec![192, 255, 255, 127, 16, 0, 0, 0],
        // 288230376151711740ul
        vec![252, 255, 255, 255, 255, 255, 255, 3],
        // 1ul
        vec![1, 0, 0, 0, 0, 0, 0, 0],
        // 1
        vec![1],
        // 2305843009213693956ul
        vec![4, 0, 0, 0, 0, 0, 0, 32],
        // 6ul
        vec![6, 0, 0, 0, 0, 0, 0, 0],
        // 4611686018427387903ul
        vec![255, 255, 255, 255, 255, 255, 255, 63],
        // 4611686018427387903ul
        vec![255, 255, 255, 255, 255, 255, 255, 63],
        // 1152921504606846975ul
        vec![255, 255, 255, 255, 255, 255, 255, 15],
        // 2305843009213693952ul
        vec![0, 0, 0, 0, 0, 0, 0, 32],
        // 1
        vec![1],
        // 1152921504606846979ul
        vec![3, 0, 0, 0, 0, 0, 0, 16],
    ];
    kani::concrete_playback_run(concrete_vals, mapping_delta_k3);
}
