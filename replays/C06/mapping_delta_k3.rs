// Replay of a solver counterexample for property C06, harness mapping_delta_k3
// (package sourcemap-writer, harness file kv/harness/sourcemap_writer/mapping_h.rs).
// Re-run: /verif/bin/check C06 --replay /verif/replays/C06/mapping_delta_k3.rs
// Failing check: assertion "attempt to add with overflow"
#[test]
fn kani_concrete_playback_mapping_delta_k3_9805386861611631968() {
    let concrete_vals: std::vec::Vec<std::vec::Vec<u8>> = std::vec![
        // 3ul
        std::vec![3, 0, 0, 0, 0, 0, 0, 0],
        // 4611686018427387903ul
        std::vec![255, 255, 255, 255, 255, 255, 255, 63],
        // 4611685949707911168ul
        std::vec![0, 0, 0, 0, 240, 255, 255, 63],
        // 2305843009213693952ul
        std::vec![0, 0, 0, 0, 0, 0, 0, 32],
        // 2305843009213693953ul
        std::vec![1, 0, 0, 0, 0, 0, 0, 32],
        // 0
        std::vec![0],
        // 5ul
        std::vec![5, 0, 0, 0, 0, 0, 0, 0],
        // 3ul
        std::vec![3, 0, 0, 0, 0, 0, 0, 0],
        // 70866960320ul
        std::vec![192, 255, 255, 127, 16, 0, 0, 0],
        // 288230376151711740ul
        std::vec![252, 255, 255, 255, 255, 255, 255, 3],
        // 1ul
        std::vec![1, 0, 0, 0, 0, 0, 0, 0],
        // 1
        std::vec![1],
        // 2305843009213693956ul
        std::vec![4, 0, 0, 0, 0, 0, 0, 32],
        // 6ul
        std::vec![6, 0, 0, 0, 0, 0, 0, 0],
        // 4611686018427387903ul
        std::vec![255, 255, 255, 255, 255, 255, 255, 63],
        // 4611686018427387903ul
        std::vec![255, 255, 255, 255, 255, 255, 255, 63],
        // 1152921504606846975ul
        std::vec![255, 255, 255, 255, 255, 255, 255, 15],
        // 2305843009213693952ul
        std::vec![0, 0, 0, 0, 0, 0, 0, 32],
        // 1
        std::vec![1],
        // 1152921504606846979ul
        std::vec![3, 0, 0, 0, 0, 0, 0, 16],
    ];
    kani::concrete_playback_run(concrete_vals, mapping_delta_k3);
}
