// Replay of a solver counterexample for property C06, harness vlq_roundtrip_full
// (package sourcemap-writer, harness file kv/harness/sourcemap_writer/vlq_h.rs).
// Re-run: /verif/bin/check C06 --replay /verif/replays/C06/vlq_roundtrip_full.rs
// Failing check: assertion ""C06: decode(encode(n)) == n""
#[test]
fn kani_concrete_playback_vlq_roundtrip_full_17640925101298956203() {
    let concrete_vals: std::vec::Vec<std::vec::Vec<u8>> = std::vec![
        // 16133
        std::vec![5, 63, 0, 0, 0, 0, 0, 0],
    ];
    kani::concrete_playback_run(concrete_vals, vlq_roundtrip_full);
}
