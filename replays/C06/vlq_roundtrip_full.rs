// Replay of a solver counterexample for property C06, harness vlq_roundtrip_full
// (package sourcemap-writer, harness file kv/harness/sourcemap_writer/vlq_h.rs).
// Re-run: /verif/bin/check C06 --replay /verif/replays/C06/vlq_roundtrip_full.rs
// Failing check(s): "C06: decode(encode(n)) == n"
#[test]
fn kani_concrete_playback_vlq_roundtrip_full_9117827862464416623() {
    let concrete_vals: Vec<Vec<u8>> = vec![
        // -9223372036854775802
        vec![6, 0, 0, 0, 0, 0, 0, 128],
    ];
    kani::concrete_playback_run(concrete_vals, vlq_roundtrip_full);
}
