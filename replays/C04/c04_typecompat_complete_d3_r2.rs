// Replay of a solver counterexample for property C04, harness c04_typecompat_complete_d3_r2
// (package nitrogql-checker, harness file kv/harness/checker/typecompat_h.rs).
// Re-run: /verif/bin/check C04 --replay /verif/replays/C04/c04_typecompat_complete_d3_r2.rs
// Failing check: assertion ""C04: variable usage allowed by AreTypesCompatible is accepted by check""
#[test]
fn kani_concrete_playback_c04_typecompat_complete_d3_r2_7866699432649698198() {
    let concrete_vals: std::vec::Vec<std::vec::Vec<u8>> = std::vec![
        // 23
        std::vec![23, 0, 0, 0],
        // 1
        std::vec![1, 0, 0, 0],
        // 1ul
        std::vec![1, 0, 0, 0, 0, 0, 0, 0],
        // 1ul
        std::vec![1, 0, 0, 0, 0, 0, 0, 0],
    ];
    kani::concrete_playback_run(concrete_vals, c04_typecompat_complete_d3_r2);
}
