// Included (via #[path]) by harnesses whose kernel uses str::split(char) / lines() / find(char).
// Needs the crate attribute feature(pattern) (the runner passes -Zcrate-attr=feature(pattern)).
use core::str::pattern::{CharSearcher, Pattern, Searcher};
use verif_models::sink::{char_searcher_next_match_impl, CharSearcherMirror};

pub fn char_searcher_next_match<'a>(s: &mut CharSearcher<'a>) -> Option<(usize, usize)>
where
    'a: 'a, // makes 'a early-bound, like the impl's lifetime parameter (Kani compares generic counts)
{
    unsafe { char_searcher_next_match_impl(&mut *(s as *mut CharSearcher<'a> as *mut CharSearcherMirror<'a>)) }
}

/// Layout witness: on a concrete searcher the mirror struct reads back exactly what was put in,
/// and the REAL next_match (not stubbed in this harness) and the stub agree step by step.
#[kani::proof]
#[kani::unwind(20)]
fn char_searcher_layout_witness() {
    assert!(core::mem::size_of::<CharSearcher<'static>>() == core::mem::size_of::<CharSearcherMirror<'static>>());
    assert!(core::mem::align_of::<CharSearcher<'static>>() == core::mem::align_of::<CharSearcherMirror<'static>>());
    let hay = "a\nbc\n";
    let mut real = '\n'.into_searcher(hay);
    {
        let m = unsafe { &*(&real as *const CharSearcher<'_> as *const CharSearcherMirror<'_>) };
        assert!(m.haystack.len() == 5 && m.haystack.as_ptr() == hay.as_ptr());
        assert!(m.finger == 0 && m.finger_back == 5);
        assert!(m.needle == '\n' && m.utf8_size == 1 && m.utf8_encoded[0] == b'\n');
    }
    let mut twin = '\n'.into_searcher(hay);
    let r1 = real.next_match();
    let s1 = char_searcher_next_match(&mut twin);
    assert!(r1 == Some((1, 2)) && s1 == r1);
    let r2 = real.next_match();
    let s2 = char_searcher_next_match(&mut twin);
    assert!(r2 == Some((4, 5)) && s2 == r2);
    let r3 = real.next_match();
    let s3 = char_searcher_next_match(&mut twin);
    assert!(r3.is_none() && s3.is_none());
    // a multi-byte needle
    let hay2 = "xéy";
    let mut real2 = 'é'.into_searcher(hay2);
    let mut twin2 = 'é'.into_searcher(hay2);
    let q = real2.next_match();
    assert!(q == Some((1, 3)) && char_searcher_next_match(&mut twin2) == q);
    kani::cover!(true, "layout witness executed");
    kani::cover!(s2.is_some(), "second match found by the stub");
}
