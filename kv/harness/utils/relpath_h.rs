// C20 — relative_path / resolve_relative_path / normalize_path.
// Child module of crates/utils/src/relative_path.rs (scratch copy; the file is unchanged except
// that its `use std::path::{Component, Path, PathBuf}` line imports the component-list model).
use super::{normalize_path, relative_path, resolve_relative_path};
use verif_models::pathmodel::{Component, Name, Path, PathBuf, CAP};

fn any_comp() -> Component {
    let k: u8 = kani::any();
    kani::assume(k < 4);
    match k {
        0 => Component::Normal(Name(1)),
        1 => Component::Normal(Name(2)),
        2 => Component::CurDir,
        _ => Component::ParentDir,
    }
}

/// `/` followed by up to `maxc` symbolic components; if `no_climb`, no prefix climbs above the root.
/// if `file`, the last component is a Normal one (the path names a file).
fn any_abs_path(maxc: usize, no_climb: bool, file: bool) -> PathBuf {
    let mut p = PathBuf::new();
    p.push(Component::RootDir);
    let n: usize = kani::any();
    kani::assume(n <= maxc);
    let mut depth: isize = 0;
    let mut last_normal = false;
    let mut i = 0;
    while i < maxc {
        if i < n {
            let c = any_comp();
            match c {
                Component::Normal(_) => {
                    depth += 1;
                    last_normal = true;
                }
                Component::ParentDir => {
                    depth -= 1;
                    last_normal = false;
                }
                _ => {
                    last_normal = false;
                }
            }
            if no_climb {
                kani::assume(depth >= 0);
            }
            p.push(c);
        }
        i += 1;
    }
    if file {
        kani::assume(last_normal);
    }
    p
}

/// Reference normalisation (POSIX lexical normalisation of an absolute path), on plain arrays.
/// `.2` tells whether some `..` tried to climb above the root (where POSIX stays at `/`).
fn ref_normalize3(p: &Path) -> ([Component; CAP], usize, bool) {
    let mut out = [Component::CurDir; CAP];
    let mut n = 0usize;
    let mut climbed = false;
    let mut i = 0;
    while i < p.len() {
        match p.get(i) {
            Component::RootDir | Component::Prefix(_) => {
                out[0] = Component::RootDir;
                n = 1;
            }
            Component::CurDir => {}
            Component::ParentDir => {
                if n > 1 {
                    n -= 1;
                } else {
                    climbed = true;
                }
            }
            c => {
                out[n] = c;
                n += 1;
            }
        }
        i += 1;
    }
    (out, n, climbed)
}
fn ref_normalize(p: &Path) -> ([Component; CAP], usize) {
    let r = ref_normalize3(p);
    (r.0, r.1)
}
/// is `x` (normalised) a proper prefix of `y` (normalised), i.e. an ancestor directory of it?
fn proper_prefix(x: &([Component; CAP], usize), y: &([Component; CAP], usize)) -> bool {
    if x.1 >= y.1 {
        return false;
    }
    let mut i = 0;
    while i < x.1 {
        if x.0[i] != y.0[i] {
            return false;
        }
        i += 1;
    }
    true
}

fn same(p: &Path, r: &([Component; CAP], usize)) -> bool {
    if p.len() != r.1 {
        return false;
    }
    let mut i = 0;
    while i < r.1 {
        if p.get(i) != r.0[i] {
            return false;
        }
        i += 1;
    }
    true
}

fn is_clean(p: &Path) -> bool {
    let mut i = 0;
    while i < p.len() {
        if matches!(p.get(i), Component::CurDir | Component::ParentDir) {
            return false;
        }
        i += 1;
    }
    true
}

macro_rules! normalize_harness {
    ($name:ident, $n:expr, $unw:expr) => {
        #[kani::proof]
        #[kani::unwind($unw)]
        fn $name() {
            let b = any_abs_path($n, true, false);
            let nb = normalize_path(&b);
            #[cfg(not(verif_mutant))]
            assert!(same(&nb, &ref_normalize(&b)), "C20: normalize_path == lexical normalisation");
            #[cfg(verif_mutant)]
            assert!(nb.len() == b.len(), "mutant oracle: must be refuted");
            assert!(is_clean(&nb), "C20: normalized path contains no . or ..");
            let nnb = normalize_path(&nb);
            assert!(nnb == nb, "C20: normalisation is idempotent");
            kani::cover!(b.len() == $n + 1 && nb.len() == 2, "long input collapsing to one name");
            kani::cover!(nb.len() == 1, "collapses to the root");
        }
    };
}
normalize_harness!(normalize_spec_n3, 3, 6);
normalize_harness!(normalize_spec_n4, 4, 7);
normalize_harness!(normalize_spec_n5, 5, 8);

/// The statement itself, end to end, for raw (un-normalised) inputs.
macro_rules! inverse_harness {
    ($name:ident, $na:expr, $nb:expr, $unw:expr) => {
        #[kani::proof]
        #[kani::unwind($unw)]
        fn $name() {
            let a = any_abs_path($na, true, true);
            let b = any_abs_path($nb, true, true);
            // "from file A to file B": B is a file, hence not one of the directories A lives in
            kani::assume(!proper_prefix(&ref_normalize(&b), &ref_normalize(&a)));
            let rel = relative_path(&a, &b);
            assert!(rel.len() >= 1, "C20: relative path between two files is not empty");
            #[cfg(not(verif_mutant))]
            assert!(matches!(rel.get(0), Component::CurDir | Component::ParentDir), "C20: relative path starts with ./ or ../");
            #[cfg(verif_mutant)]
            assert!(matches!(rel.get(0), Component::CurDir), "mutant oracle: must be refuted");
            let back = resolve_relative_path(&a, &rel);
            assert!(same(&back, &ref_normalize(&b)), "C20: resolve(a, relative(a, b)) == normalize(b)");
            kani::cover!(matches!(rel.get(0), Component::ParentDir), "relative path climbs with ..");
            kani::cover!(rel.len() >= 3, "relative path with at least three components");
        }
    };
}
inverse_harness!(inverse_law_2x2, 2, 2, 8);
inverse_harness!(inverse_law_3x3, 3, 3, 9);
inverse_harness!(inverse_law_4x4, 4, 4, 13);

/// Without the "does not climb above the root" precondition: only panic-freedom is asserted
/// (Kani's built-in checks), documenting where `..` above the root goes.
#[kani::proof]
#[kani::unwind(8)]
fn relpath_no_panic_unconstrained_2x2() {
    let a = any_abs_path(2, false, false);
    let b = any_abs_path(2, false, false);
    let rel = relative_path(&a, &b);
    let _ = resolve_relative_path(&a, &rel);
    kani::cover!(normalize_path(&a).len() == 0, "input climbing above the root");
    kani::cover!(rel.len() == 0, "empty relative path");
}

/// resolve_relative_path on an arbitrary relative spelling (what `#import "<path>"` supplies).
fn any_rel_path(maxc: usize) -> PathBuf {
    let mut p = PathBuf::new();
    let n: usize = kani::any();
    kani::assume(n <= maxc);
    let mut i = 0;
    while i < maxc {
        if i < n {
            p.push(any_comp());
        }
        i += 1;
    }
    p
}

macro_rules! resolve_harness {
    ($name:ident, $na:expr, $nr:expr, $unw:expr) => {
        #[kani::proof]
        #[kani::unwind($unw)]
        fn $name() {
            let a = any_abs_path($na, true, true);
            let r = any_rel_path($nr);
            // reference: join(dirname(a), r) then lexical normalisation
            let mut j = PathBuf::new();
            let mut i = 0;
            while i + 1 < a.len() {
                j.push(a.get(i));
                i += 1;
            }
            let mut k = 0;
            while k < r.len() {
                j.push(r.get(k));
                k += 1;
            }
            let w3 = ref_normalize3(&j);
            // precondition of the statement: the joined path does not climb above the root
            kani::assume(!w3.2);
            let want = (w3.0, w3.1);
            let got = resolve_relative_path(&a, &r);
            #[cfg(not(verif_mutant))]
            assert!(same(&got, &want), "C20: resolve(a, r) == normalize(dirname(a) / r)");
            #[cfg(verif_mutant)]
            assert!(same(&got, &ref_normalize(&a)), "mutant oracle: must be refuted");
            kani::cover!(r.len() == $nr && matches!(r.get(0), Component::ParentDir), "relative spelling starting with ..");
            kani::cover!(r.len() >= 2 && matches!(r.get(0), Component::CurDir), "relative spelling starting with .");
        }
    };
}
resolve_harness!(resolve_spec_3x3, 3, 3, 9);
resolve_harness!(resolve_spec_4x4, 4, 4, 11);
