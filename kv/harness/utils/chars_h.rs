// C08 (kernel scope) — utils/src/chars.rs: no panic on any text, and the documented result.
// Child module of crates/utils/src/chars.rs (scratch copy only).
use super::{first_non_space_byte_index, skip_chars};

const MAXC: usize = 3;

/// MAXC characters, B = 4 * MAXC bytes, O = MAXC + 1 offsets (spelled out: no generic_const_exprs)
struct SymStrN<const MAXC: usize, const B: usize, const O: usize> {
    chars: [char; MAXC],
    n: usize,
    bytes: [u8; B],
    blen: usize,
    /// byte offset at which char i starts (off[n] = blen)
    off: [usize; O],
}
type SymStr = SymStrN<3, 12, 4>;
fn any_str() -> SymStr {
    any_str_n::<3, 12, 4>()
}
fn any_str_n<const MAXC: usize, const B: usize, const O: usize>() -> SymStrN<MAXC, B, O> {
    assert!(B == 4 * MAXC && O == MAXC + 1);
    let mut s = SymStrN::<MAXC, B, O> { chars: ['a'; MAXC], n: kani::any(), bytes: [0; B], blen: 0, off: [0; O] };
    kani::assume(s.n <= MAXC);
    let mut i = 0;
    while i < MAXC {
        if i < s.n {
            let c: char = kani::any();
            s.chars[i] = c;
            s.off[i] = s.blen;
            let mut tmp = [0u8; 4];
            let e = c.encode_utf8(&mut tmp).as_bytes();
            let mut j = 0;
            while j < e.len() {
                s.bytes[s.blen] = e[j];
                s.blen += 1;
                j += 1;
            }
        }
        i += 1;
    }
    let mut k = s.n;
    while k <= MAXC {
        s.off[k] = s.blen;
        k += 1;
    }
    s
}

#[kani::proof]
#[kani::unwind(14)]
fn chars_skip_chars_any_text() {
    let s = any_str();
    let text = unsafe { core::str::from_utf8_unchecked(&s.bytes[..s.blen]) };
    let k: usize = kani::any();
    kani::assume(k <= MAXC + 2);
    // must not panic (split_at on a non-boundary / past the end would)
    let rest = skip_chars(text, k);
    let skipped = if k < s.n { k } else { s.n };
    #[cfg(not(verif_mutant))]
    assert!(rest.len() == s.blen - s.off[skipped], "C08: skip_chars returns the text after min(k, len) characters");
    #[cfg(verif_mutant)]
    assert!(rest.len() == s.blen - skipped, "mutant oracle (counts bytes, not chars): must be refuted");
    kani::cover!(s.n == 3 && k == 2 && s.blen == 9, "skipping over multi-byte characters");
    kani::cover!(k > s.n, "asked to skip more characters than there are");
}

#[kani::proof]
#[kani::unwind(14)]
fn chars_first_non_space_any_text() {
    let s = any_str();
    let text = unsafe { core::str::from_utf8_unchecked(&s.bytes[..s.blen]) };
    let got = first_non_space_byte_index(text);
    // reference: scan the characters
    let mut want: Option<(usize, usize)> = None;
    let mut i = 0;
    while i < s.n {
        if want.is_none() && !s.chars[i].is_whitespace() {
            want = Some((i, s.off[i]));
        }
        i += 1;
    }
    #[cfg(not(verif_mutant))]
    assert!(got == want, "C08: first_non_space_byte_index == (char index, byte index) of the first non-space character");
    #[cfg(verif_mutant)]
    assert!(got.map(|x| x.0) == got.map(|x| x.1), "mutant oracle (char index == byte index): must be refuted");
    kani::cover!(matches!(got, Some((1, 3))), "a 3-byte whitespace character before the first non-space");
    kani::cover!(got.is_none() && s.n == 3, "all whitespace");
}

// ---- thorough tier: the same two obligations on texts of up to 5 arbitrary Unicode scalar values
const DEEP: usize = 5;

#[kani::proof]
#[kani::unwind(23)]
fn chars_n5_skip_chars() {
    let s = any_str_n::<5, 20, 6>();
    let text = unsafe { core::str::from_utf8_unchecked(&s.bytes[..s.blen]) };
    let k: usize = kani::any();
    kani::assume(k <= DEEP + 2);
    let rest = skip_chars(text, k);
    let skipped = if k < s.n { k } else { s.n };
    #[cfg(not(verif_mutant))]
    assert!(rest.len() == s.blen - s.off[skipped], "C08: skip_chars returns the text after min(k, len) characters");
    #[cfg(verif_mutant)]
    assert!(rest.len() == s.blen - skipped, "mutant oracle (counts bytes, not chars): must be refuted");
    // the returned slice is the TAIL of the input (same end address), not just a slice of the right length
    #[cfg(not(verif_mutant))]
    assert!(rest.as_ptr() as usize + rest.len() == text.as_ptr() as usize + text.len(), "C08: skip_chars returns a suffix of the text");
    kani::cover!(s.n == 5 && k == 4 && s.blen == 20, "skipping over four 4-byte characters");
    kani::cover!(k > s.n, "asked to skip more characters than there are");
}

#[kani::proof]
#[kani::unwind(23)]
fn chars_n5_first_non_space() {
    let s = any_str_n::<5, 20, 6>();
    let text = unsafe { core::str::from_utf8_unchecked(&s.bytes[..s.blen]) };
    let got = first_non_space_byte_index(text);
    let mut want: Option<(usize, usize)> = None;
    let mut i = 0;
    while i < s.n {
        if want.is_none() && !s.chars[i].is_whitespace() {
            want = Some((i, s.off[i]));
        }
        i += 1;
    }
    #[cfg(not(verif_mutant))]
    assert!(got == want, "C08: first_non_space_byte_index == (char index, byte index) of the first non-space character");
    #[cfg(verif_mutant)]
    assert!(got.map(|x| x.0) == got.map(|x| x.1), "mutant oracle (char index == byte index): must be refuted");
    kani::cover!(matches!(got, Some((4, 12))), "four 3-byte whitespace characters before the first non-space");
    kani::cover!(got.is_none() && s.n == 5, "all whitespace");
}
