// Shared: GraphQL type shapes (wrapper nestings) as an independent representation, and the table
// of all well-formed nestings of depth <= 4. Used with a SYMBOLIC selector over CONCRETE nestings:
// CBMC forks one path per nesting, on which recursion over the real Box tree terminates in
// symbolic execution (with a symbolic nesting it does not: 3^k calls up to the unwind bound).
pub const MAXW: usize = 4;

#[derive(Clone, Copy, PartialEq)]
pub enum W {
    List,
    NonNull,
}
#[derive(Clone, Copy)]
pub struct Shape {
    pub w: [W; MAXW], // outermost first
    pub n: usize,
}

/// codes (base-3 digits, 1 = List, 2 = NonNull, most significant = outermost) of every well-formed
/// nesting (no `T!!`) of depth <= 4, ascending; depth <= 2: first 6, depth <= 3: first 11.
pub const CODES: [u32; 19] = [0, 1, 2, 4, 5, 7, 13, 14, 16, 22, 23, 40, 41, 43, 49, 50, 67, 68, 70];

pub fn shape_of_code(code: u32) -> Shape {
    let mut s = Shape { w: [W::List; MAXW], n: 0 };
    let mut digs = [0u32; MAXW];
    let mut c = code;
    let mut n = 0;
    while c > 0 {
        digs[n] = c % 3;
        c /= 3;
        n += 1;
    }
    let mut i = 0;
    while i < n {
        s.w[i] = if digs[n - 1 - i] == 1 { W::List } else { W::NonNull };
        i += 1;
    }
    s.n = n;
    s
}
