// C16 / C08 — graphql_printer/utils.rs print_string: the emitted literal must lex, under the
// GraphQL specification's StringValue grammar (section 2.9.4), as exactly ONE string token whose
// value is the input. Child module of crates/printer/src/graphql_printer/utils.rs (scratch copy).
//
// String appends are stubbed to the byte sink (kv/models/src/sink.rs); natively (replay) the real
// String is used.
use super::print_string;
use nitrogql_ast::base::HasPos;
use sourcemap_writer::SourceMapWriter;
use verif_models::sink;

#[path = "strlex.rs"]
mod strlex;
use strlex::{utf8_at, SymStr, MAXC};

pub struct Collect {
    pub native: String,
}
impl SourceMapWriter for Collect {
    fn write(&mut self, chunk: &str) {
        self.native.push_str(chunk);
    }
    fn write_for(&mut self, chunk: &str, _node: &impl HasPos) {
        self.native.push_str(chunk);
    }
    fn indent(&mut self) {}
    fn dedent(&mut self) {}
}

/// `format!("\\u{{{:x}}}", c as u32)` for the only control character in the alphabet (U+0001).
fn format_stub_u1(_args: core::fmt::Arguments<'_>) -> String {
    String::from("\\u{1}")
}

fn hexval(b: u8) -> Option<u32> {
    match b {
        b'0'..=b'9' => Some((b - b'0') as u32),
        b'a'..=b'f' => Some((b - b'a') as u32 + 10),
        b'A'..=b'F' => Some((b - b'A') as u32 + 10),
        _ => None,
    }
}

pub struct Lexed {
    pub v: [u32; 2 * MAXC + 2],
    pub n: usize,
}

/// Reference lexer for a quoted (non-block) GraphQL StringValue spanning ALL of b[..len].
pub fn lex_quoted(b: &[u8; sink::CAP], len: usize) -> Option<Lexed> {
    let mut out = Lexed { v: [0; 2 * MAXC + 2], n: 0 };
    if len < 2 || b[0] != b'"' {
        return None;
    }
    // `""` followed by `"` would start a block string
    let mut i = 1;
    loop {
        if i >= len {
            return None; // unterminated
        }
        let c = b[i];
        if c == b'"' {
            // closing quote must be the last byte of the output
            return if i + 1 == len { Some(out) } else { None };
        }
        if c == b'\n' || c == b'\r' {
            return None; // line terminators are not allowed in a quoted string
        }
        let cp;
        if c == b'\\' {
            if i + 1 >= len {
                return None;
            }
            let e = b[i + 1];
            i += 2;
            cp = match e {
                b'"' => 0x22,
                b'\\' => 0x5C,
                b'/' => 0x2F,
                b'b' => 0x08,
                b'f' => 0x0C,
                b'n' => 0x0A,
                b'r' => 0x0D,
                b't' => 0x09,
                b'u' => {
                    if i < len && b[i] == b'{' {
                        i += 1;
                        let mut v: u32 = 0;
                        let mut nd = 0;
                        loop {
                            if i >= len {
                                return None;
                            }
                            if b[i] == b'}' {
                                i += 1;
                                break;
                            }
                            let h = hexval(b[i])?;
                            if nd >= 6 {
                                return None;
                            }
                            v = v * 16 + h;
                            nd += 1;
                            i += 1;
                        }
                        if nd == 0 || v > 0x10FFFF || (v >= 0xD800 && v < 0xE000) {
                            return None;
                        }
                        v
                    } else {
                        if i + 4 > len {
                            return None;
                        }
                        let v = hexval(b[i])? * 4096 + hexval(b[i + 1])? * 256 + hexval(b[i + 2])? * 16 + hexval(b[i + 3])?;
                        i += 4;
                        v
                    }
                }
                _ => return None,
            };
        } else {
            let (v, nx) = utf8_at(b, len, i)?;
            cp = v;
            i = nx;
        }
        if out.n >= out.v.len() {
            return None;
        }
        out.v[out.n] = cp;
        out.n += 1;
    }
}

const ALPHA_SINGLE: [char; 8] = ['"', '\\', 'a', '\r', '\u{1}', 'é', '😀', '/'];

fn has_quote_or_backslash(s: &SymStr) -> bool {
    let mut i = 0;
    while i < s.n {
        if s.chars[i] == '"' || s.chars[i] == '\\' {
            return true;
        }
        i += 1;
    }
    false
}

// $known = false: inputs OUTSIDE the recorded finding (no `"` and no `\`): must verify.
// $known = true : inputs INSIDE the recorded finding (some `"` or `\`): expected to fail
//                 (known_findings.json: print_string prints them verbatim in a quoted string).
macro_rules! single_line_harness {
    ($name:ident, $n:expr, $unw:expr, $known:expr) => {
        #[kani::proof]
        #[kani::stub(alloc::string::String::push, sink::string_push)]
        #[kani::stub(alloc::string::String::push_str, sink::string_push_str)]
        #[kani::stub(str::repeat, sink::str_repeat_1)]
        #[kani::stub(alloc::fmt::format, format_stub_u1)]
        #[kani::stub(str::ends_with, strlex::guard_ends_with)]
        #[kani::stub(alloc::string::String::insert, strlex::guard_string_insert)]
        #[kani::stub(alloc::string::String::insert_str, strlex::guard_string_insert_str)]
        #[kani::stub(alloc::string::String::pop, strlex::guard_string_pop)]
        #[kani::stub(alloc::string::String::truncate, strlex::guard_string_truncate)]
        #[kani::stub(str::find, strlex::str_find_char)]
        #[kani::unwind($unw)]
        fn $name() {
            let s = SymStr::any($n, &ALPHA_SINGLE);
            kani::assume(has_quote_or_backslash(&s) == $known);
            let mut w = Collect { native: String::new() };
            print_string(s.as_str(), &mut w);
            let (out, len) = sink::contents(&w.native);
            let lexed = lex_quoted(&out, len);
            assert!(lexed.is_some(), "C16: print_string output is exactly one GraphQL string token");
            let l = lexed.unwrap();
            #[cfg(not(verif_mutant))]
            assert!(l.n == s.n, "C16: string token has as many characters as the input");
            #[cfg(verif_mutant)]
            assert!(l.n + 2 == len, "mutant oracle (no escapes ever): must be refuted");
            let mut i = 0;
            while i < s.n {
                assert!(l.v[i] == s.chars[i] as u32, "C16: re-lexed string value equals the input");
                i += 1;
            }
            kani::cover!(!$known || (s.n == $n && s.chars[0] == '"'), "input starting with a double quote (known class) / trivial otherwise");
            kani::cover!($known || (s.n >= 1 && s.chars[0] == '\u{1}'), "input containing a control character");
            kani::cover!($known || (s.n == $n && s.chars[0] == '\u{1F600}'), "input containing an astral character");
            kani::cover!($known || s.n == 0, "empty string");
            core::mem::forget(w);
        }
    };
}
single_line_harness!(print_string_single_line_n2_outside_known, 2, 14, false);
single_line_harness!(print_string_single_line_n2_known_quote_backslash, 2, 14, true);
single_line_harness!(print_string_single_line_n3_outside_known, 3, 19, false);


// ------------------------------------------------------------------------------------------------
// Block-string path (inputs containing a line feed): LEXICAL well-formedness only.
// The emitted text must be exactly one block-string token: it starts with `"""`, and the first
// unescaped `"""` after the opening is the end of the output (`\"""` is the escaped form).
// Whether BlockStringValue(token) == input (common-indent / blank-line stripping) is NOT decided here.
pub fn is_one_block_string_token(b: &[u8; sink::CAP], len: usize) -> bool {
    if len < 6 || b[0] != b'"' || b[1] != b'"' || b[2] != b'"' {
        return false;
    }
    let mut i = 3;
    loop {
        if i + 3 > len {
            return false; // unterminated
        }
        if i + 4 <= len && b[i] == b'\\' && b[i + 1] == b'"' && b[i + 2] == b'"' && b[i + 3] == b'"' {
            i += 4; // escaped triple quote
        } else if b[i] == b'"' && b[i + 1] == b'"' && b[i + 2] == b'"' {
            return i + 3 == len; // the closing delimiter must end the output
        } else {
            i += 1;
        }
    }
}

const ALPHA_BLOCK: [char; 5] = ['\n', '"', '\\', 'a', ' '];

fn has_lf(s: &SymStr) -> bool {
    let mut i = 0;
    while i < s.n {
        if s.chars[i] == '\n' {
            return true;
        }
        i += 1;
    }
    false
}
fn ends_with_quote_or_backslash(s: &SymStr) -> bool {
    s.n > 0 && (s.chars[s.n - 1] == '"' || s.chars[s.n - 1] == '\\')
}

// $known = true: multi-line strings ENDING in `"` or `\` (recorded finding: the closing delimiter
// merges with the trailing quote / is escaped by the trailing backslash); false: all other
// multi-line strings, which must verify.
macro_rules! block_harness {
    ($name:ident, $n:expr, $unw:expr, $known:expr) => {
        #[kani::proof]
        #[kani::stub(alloc::string::String::push, sink::string_push)]
        #[kani::stub(alloc::string::String::push_str, sink::string_push_str)]
        #[kani::stub(str::repeat, sink::str_repeat_1)]
        #[kani::stub(alloc::fmt::format, format_stub_u1)]
        #[kani::stub(str::ends_with, strlex::guard_ends_with)]
        #[kani::stub(alloc::string::String::insert, strlex::guard_string_insert)]
        #[kani::stub(alloc::string::String::insert_str, strlex::guard_string_insert_str)]
        #[kani::stub(alloc::string::String::pop, strlex::guard_string_pop)]
        #[kani::stub(alloc::string::String::truncate, strlex::guard_string_truncate)]
        #[kani::stub(str::find, strlex::str_find_char)]
        #[kani::unwind($unw)]
        fn $name() {
            let s = SymStr::any($n, &ALPHA_BLOCK);
            kani::assume(has_lf(&s));
            kani::assume(ends_with_quote_or_backslash(&s) == $known);
            let mut w = Collect { native: String::new() };
            print_string(s.as_str(), &mut w);
            let (out, len) = sink::contents(&w.native);
            #[cfg(not(verif_mutant))]
            assert!(is_one_block_string_token(&out, len), "C16: multi-line string is emitted as exactly one block-string token");
            #[cfg(verif_mutant)]
            assert!(!is_one_block_string_token(&out, len), "mutant oracle (negated): must be refuted");
            kani::cover!($known || (s.n == $n && s.chars[0] == '"'), "a quote inside the text");
            kani::cover!(!$known || s.chars[s.n - 1] == '\\', "text ending in a backslash");
            core::mem::forget(w);
        }
    };
}
block_harness!(print_string_block_n2_outside_known, 2, 14, false);
block_harness!(print_string_block_n2_known_trailing_quote_backslash, 2, 14, true);
block_harness!(print_string_block_n3_outside_known, 3, 16, false);
block_harness!(print_string_block_n3_known_trailing_quote_backslash, 3, 16, true);
block_harness!(print_string_block_n4_outside_known, 4, 18, false);

// Control characters through the REAL `format!("\\u{{{:x}}}", ..)` (no format stub): one character
// drawn from a few control characters whose hexadecimal and decimal spellings differ.
const ALPHA_CTRL: [char; 4] = ['\u{b}', '\u{1f}', '\u{7f}', 'a'];
#[kani::proof]
#[kani::stub(alloc::string::String::push, sink::string_push)]
#[kani::stub(alloc::string::String::push_str, sink::string_push_str)]
#[kani::stub(str::repeat, sink::str_repeat_1)]
#[kani::stub(str::find, strlex::str_find_char)]
#[kani::unwind(14)]
fn print_string_control_chars_real_format() {
    let s = SymStr::any(1, &ALPHA_CTRL);
    let mut w = Collect { native: String::new() };
    print_string(s.as_str(), &mut w);
    let (out, len) = sink::contents(&w.native);
    let lexed = lex_quoted(&out, len);
    assert!(lexed.is_some(), "C16: print_string output is exactly one GraphQL string token");
    let l = lexed.unwrap();
    assert!(l.n == s.n, "C16: string token has as many characters as the input");
    #[cfg(not(verif_mutant))]
    assert!(s.n == 0 || l.v[0] == s.chars[0] as u32, "C16: re-lexed string value equals the input");
    #[cfg(verif_mutant)]
    assert!(s.n == 0 || l.v[0] == 0x61, "mutant oracle: must be refuted");
    kani::cover!(s.n == 1 && s.chars[0] == '\u{1f}', "U+001F reached");
    kani::cover!(s.n == 1 && s.chars[0] == '\u{7f}', "U+007F reached");
    core::mem::forget(w);
}
