// Shared by the C16 / C10 / C08 string harnesses: symbolic input strings and reference lexers.

pub const MAXC: usize = 4;

/// A string of up to `n` chars drawn (symbolically) from `alphabet`, materialised as UTF-8 bytes.
pub struct SymStr {
    pub chars: [char; MAXC],
    pub n: usize,
    pub bytes: [u8; 4 * MAXC],
    pub blen: usize,
}
impl SymStr {
    pub fn any(maxn: usize, alphabet: &[char]) -> SymStr {
        let mut s = SymStr { chars: ['a'; MAXC], n: kani::any(), bytes: [0; 4 * MAXC], blen: 0 };
        kani::assume(s.n <= maxn && maxn <= MAXC);
        let mut i = 0;
        while i < maxn {
            if i < s.n {
                let k: usize = kani::any();
                kani::assume(k < alphabet.len());
                let c = alphabet[k];
                s.chars[i] = c;
                let mut tmp = [0u8; 4];
                let e = c.encode_utf8(&mut tmp).as_bytes();
                let mut j = 0;
                while j < e.len() {
                    s.bytes[s.blen] = e[j];
                    s.blen += 1;
                    j += 1;
                }
            }
            i += 1;
        }
        s
    }
    /// Calls `f` on the string with its byte length CONCRETE on each symbolic-execution path
    /// (a case split on the length): loops over the input (`chars()`, `find`, memchr, `split`) then
    /// have constant trip counts instead of being unwound to the global bound under symbolic guards.
    pub fn with_concrete_len(&self, f: &mut dyn FnMut(&str)) {
        let mut l = 0usize;
        while l <= 4 * MAXC {
            if self.blen == l {
                f(unsafe { core::str::from_utf8_unchecked(&self.bytes[..l]) });
                return;
            }
            l += 1;
        }
    }
    pub fn as_str(&self) -> &str {
        // valid UTF-8 by construction (encode_utf8); re-validating costs CBMC minutes
        unsafe { core::str::from_utf8_unchecked(&self.bytes[..self.blen]) }
    }
}

/// decodes one UTF-8 scalar starting at `i`; returns (code point, next index)
pub fn utf8_at(b: &[u8], len: usize, i: usize) -> Option<(u32, usize)> {
    if i >= len {
        return None;
    }
    let b0 = b[i] as u32;
    if b0 < 0x80 {
        Some((b0, i + 1))
    } else if b0 < 0xE0 {
        if i + 1 >= len { return None; }
        Some((((b0 & 0x1F) << 6) | (b[i + 1] as u32 & 0x3F), i + 2))
    } else if b0 < 0xF0 {
        if i + 2 >= len { return None; }
        Some((((b0 & 0x0F) << 12) | ((b[i + 1] as u32 & 0x3F) << 6) | (b[i + 2] as u32 & 0x3F), i + 3))
    } else {
        if i + 3 >= len { return None; }
        Some((((b0 & 0x07) << 18) | ((b[i + 1] as u32 & 0x3F) << 12) | ((b[i + 2] as u32 & 0x3F) << 6) | (b[i + 3] as u32 & 0x3F), i + 4))
    }
}

/// stub for core's word-at-a-time `memchr` (alignment tricks make its trip counts symbolic for CBMC):
/// same contract, "index of the first byte equal to x", as a plain loop.
pub fn memchr_simple(x: u8, text: &[u8]) -> Option<usize> {
    let mut i = 0;
    while i < text.len() {
        if text[i] == x {
            return Some(i);
        }
        i += 1;
    }
    None
}

/// stub for `core::str::<impl str>::find::<P>` at its ONLY instantiation in the kernel, P = char:
/// same contract (byte index of the first occurrence), as a plain scan. std's implementation goes
/// through CharSearcher -> memchr -> memcmp, whose loops CBMC unwinds to the global bound at every
/// call (measured: out of 10 GB at 2 input characters).
pub fn str_find_char<P: core::str::pattern::Pattern>(s: &str, pat: P) -> Option<usize> {
    assert!(core::mem::size_of::<P>() == 4, "str_find_char stub: only the `char` instantiation is modelled");
    let c: char = unsafe { core::mem::transmute_copy(&pat) };
    core::mem::forget(pat);
    let mut enc = [0u8; 4];
    let e = c.encode_utf8(&mut enc).as_bytes();
    let b = s.as_bytes();
    let mut i = 0;
    while i + e.len() <= b.len() {
        let mut j = 0;
        let mut eq = true;
        while j < e.len() {
            if b[i + j] != e[j] {
                eq = false;
            }
            j += 1;
        }
        if eq {
            return Some(i);
        }
        i += 1;
    }
    None
}

// Guards for the write-only assumption of the String sink: if the kernel starts to READ or EDIT its
// output buffer (which under the sink stubs stays empty), the encoding no longer represents the
// code. These stubs turn that situation into a loud "(harness bound)" failure (classified
// inconclusive by the runner) instead of a silent pass. Seed c16b is the case that prompted them.
pub fn guard_ends_with<P: core::str::pattern::Pattern>(_s: &str, pat: P) -> bool {
    core::mem::forget(pat);
    assert!(false, "sink model: the kernel reads its output buffer back with str::ends_with; encoding invalid for this tree (harness bound)");
    false
}
pub fn guard_string_insert(_s: &mut String, _idx: usize, _c: char) {
    assert!(false, "sink model: the kernel edits its output buffer with String::insert; encoding invalid for this tree (harness bound)");
}
pub fn guard_string_insert_str(_s: &mut String, _idx: usize, _t: &str) {
    assert!(false, "sink model: the kernel edits its output buffer with String::insert_str; encoding invalid for this tree (harness bound)");
}
pub fn guard_string_pop(_s: &mut String) -> Option<char> {
    assert!(false, "sink model: the kernel edits its output buffer with String::pop; encoding invalid for this tree (harness bound)");
    None
}
pub fn guard_string_truncate(_s: &mut String, _n: usize) {
    assert!(false, "sink model: the kernel edits its output buffer with String::truncate; encoding invalid for this tree (harness bound)");
}
