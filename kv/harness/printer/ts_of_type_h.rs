// C09 — ts_types/type_to_ts_type.rs get_ts_type_of_type: GraphQL input type -> TypeScript type.
// Child module of crates/printer/src/ts_types/type_to_ts_type.rs (scratch copy only).
//
// Oracle (from the spec's input coercion rules, CoerceVariableValues / "Input Coercion" of List
// and Non-Null): a nullable position admits null, so it maps to `X | null`; `T!` removes exactly
// that `| null`; `[E]` maps to an array of the mapping of E. The expected TypeScript type is
// computed from an independent representation of the type (wrapper list) and compared
// structurally, driven by the expected structure.
use super::get_ts_type_of_type;
use crate::ts_types::TSType;
use nitrogql_ast::base::{Ident, Pos};
use nitrogql_ast::r#type::{ListType, NamedType, NonNullType, Type};

#[path = "shapes.rs"]
mod shapes;
use shapes::{shape_of_code, Shape, CODES, MAXW, W};

fn leaf_ty() -> Type<'static> {
    Type::Named(NamedType { name: Ident { name: "T", position: Pos::builtin() } })
}
/// Typed arena for the Box targets (see kv/harness/checker/typecompat_h.rs for why).
struct Arena {
    l: [ListType<'static>; MAXW],
    n: [NonNullType<'static>; MAXW],
}
impl Arena {
    fn new() -> Arena {
        let l = || ListType { position: Pos::builtin(), r#type: leaf_ty() };
        let n = || NonNullType { r#type: leaf_ty() };
        Arena { l: [l(), l(), l(), l()], n: [n(), n(), n(), n()] }
    }
}
fn build(a: &mut Arena, s: &Shape) -> Type<'static> {
    let mut t = leaf_ty();
    let mut i = s.n;
    let mut k = 0;
    while i > 0 {
        i -= 1;
        t = match s.w[i] {
            W::List => {
                unsafe { core::ptr::write(&mut a.l[k], ListType { position: Pos::builtin(), r#type: t }) };
                Type::List(unsafe { Box::from_raw(&mut a.l[k] as *mut ListType<'static>) })
            }
            W::NonNull => {
                unsafe { core::ptr::write(&mut a.n[k], NonNullType { r#type: t }) };
                Type::NonNull(unsafe { Box::from_raw(&mut a.n[k] as *mut NonNullType<'static>) })
            }
        };
        k += 1;
    }
    t
}

/// Walks the produced TSType along the EXPECTED structure and asserts each constructor.
/// The leaf produced by the `map_name` callback of the harness is `TSType::Never`.
fn assert_matches_expected(out: &TSType, s: &Shape) {
    let mut cur: &TSType = out;
    let mut i = 0;
    loop {
        // a position is nullable unless it is wrapped in NonNull
        let nullable = !(i < s.n && s.w[i] == W::NonNull);
        if !nullable {
            i += 1;
        }
        #[cfg(verif_mutant)]
        let nullable = nullable || i == s.n; // mutant oracle: leaves always nullable -> must be refuted
        if nullable {
            match cur {
                TSType::Union(v) => {
                    assert!(v.len() == 2, "C09: nullable position is `X | null` (two members)");
                    assert!(matches!(v[1], TSType::Null), "C09: nullable position admits null");
                    cur = &v[0];
                }
                _ => {
                    assert!(false, "C09: nullable position must be a union with null");
                    return;
                }
            }
        }
        if i == s.n {
            assert!(matches!(cur, TSType::Never), "C09: named type maps to the callback's type, non-null positions carry no `| null`");
            return;
        }
        // here s.w[i] is List
        match cur {
            TSType::Array(inner) => {
                cur = &**inner;
                i += 1;
            }
            _ => {
                assert!(false, "C09: list type maps to an array of the element mapping");
                return;
            }
        }
    }
}

fn check(from: usize, to: usize) {
    let sel: u32 = kani::any();
    let mut k = from;
    while k < to {
        let code = CODES[k];
        if sel == code {
            let s = shape_of_code(code);
            let mut a = Arena::new();
            let t = build(&mut a, &s);
            let out = get_ts_type_of_type(&t, |_name| TSType::Never);
            assert_matches_expected(&out, &s);
            kani::cover!(s.n == 0, "bare named type");
            kani::cover!(s.n >= 3 && s.w[0] == W::NonNull && s.w[2] == W::NonNull, "[T!]! shaped type");
            kani::cover!(s.n == 2 && s.w[0] == W::List && s.w[1] == W::List, "[[T]]");
            core::mem::forget(out);
            core::mem::forget(t);
            core::mem::forget(a);
        }
        k += 1;
    }
}

// The table of nestings is cut in slices of <= 5 so that the global unwind bound (which also caps
// the recursion depth CBMC explores) can stay at 7: deeper recursion is cut by an unwinding
// assertion that the solver must prove unreachable.
#[kani::proof]
#[kani::unwind(7)]
fn c09_ts_of_type_s0() {
    check(0, 5);
}
#[kani::proof]
#[kani::unwind(7)]
fn c09_ts_of_type_s1() {
    check(5, 10);
}
#[kani::proof]
#[kani::unwind(7)]
fn c09_ts_of_type_s2() {
    check(10, 15);
}
#[kani::proof]
#[kani::unwind(7)]
fn c09_ts_of_type_s3() {
    check(15, 19);
}
