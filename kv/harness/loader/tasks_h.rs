// C19 — the loader's task table: ids are never reused, calls on unknown or freed ids return None,
// a call on one task never affects another. Child module of crates/graphql-loader/src/tasks.rs
// (scratch copy; std::collections::HashMap -> vmap::HashMap).
//
// A history of N calls, each symbolically add / get / get_mut / remove with a symbolic id, is run
// against the real `Tasks` and against a reference model (a bit set of live ids, ids handed out
// 1, 2, 3, ...); every response is compared. Tasks are told apart by a marker stored in
// `root_file_name` being empty or not is not available cheaply, so identity is observed through
// the address-free route: each added task gets a distinct drop-list LENGTH (0..N) as its marker.
use super::{Task, Tasks};
use std::path::PathBuf;

const MAXID: usize = 6;

fn new_task(marker: usize) -> Task {
    let mut t = Task::new(PathBuf::new());
    // marker: number of (null, 0, 0) entries; Drop for Task rebuilds a String from each entry,
    // and String::from_raw_parts(null-ish, 0, 0) frees nothing (capacity 0), so markers are inert.
    let mut i = 0;
    while i < marker {
        t.source_drop_list.push((core::ptr::NonNull::<u8>::dangling().as_ptr(), 0, 0));
        i += 1;
    }
    t
}
fn marker_of(t: &Task) -> usize {
    t.source_drop_list.len()
}

fn run<const N: usize>() {
    let mut tasks = Tasks::new();
    // reference model
    let mut live = [false; MAXID + 1];
    let mut marker = [0usize; MAXID + 1];
    let mut next_id = 1usize;
    let mut step = 0;
    while step < N {
        let op: u8 = kani::any();
        kani::assume(op < 4);
        let id: usize = kani::any();
        kani::assume(id <= MAXID);
        if op == 0 {
            let got = tasks.add_task(new_task(step % 3));
            #[cfg(not(verif_mutant))]
            assert!(got == next_id, "C19: task ids are handed out 1, 2, 3, ... and never reused");
            #[cfg(verif_mutant)]
            assert!(got == step + 1, "mutant oracle: must be refuted");
            live[next_id] = true;
            marker[next_id] = step % 3;
            next_id += 1;
        } else if op == 1 {
            let got = tasks.get_task(id);
            assert!(got.is_some() == live[id], "C19: get on an unknown or freed id fails, on a live id succeeds");
            if let Some(t) = got {
                assert!(marker_of(t) == marker[id], "C19: get returns the task created under that id");
            }
        } else if op == 2 {
            let got = tasks.get_task_mut(id);
            assert!(got.is_some() == live[id], "C19: get_mut on an unknown or freed id fails, on a live id succeeds");
            if let Some(t) = got {
                assert!(marker_of(t) == marker[id], "C19: get_mut returns the task created under that id");
            }
        } else {
            let got = tasks.remove_task(id);
            assert!(got.is_some() == live[id], "C19: free of an unknown or freed id fails, of a live id succeeds");
            if let Some(t) = got {
                assert!(marker_of(&t) == marker[id], "C19: free returns the task created under that id");
                core::mem::forget(t);
            }
            live[id] = false;
        }
        // isolation: every other live task is still there, untouched
        let mut j = 1;
        while j <= MAXID {
            let g = tasks.get_task(j);
            assert!(g.is_some() == live[j], "C19: a call affects only the task it names");
            if let Some(t) = g {
                assert!(marker_of(t) == marker[j], "C19: other tasks keep their contents");
            }
            j += 1;
        }
        step += 1;
    }
    kani::cover!(next_id == 3 && !live[1] && live[2], "first task freed, second alive");
    kani::cover!(next_id >= 3 && live[1] && live[2], "two live tasks");
    core::mem::forget(tasks);
}

#[kani::proof]
#[kani::unwind(9)]
fn tasks_history_n3() {
    run::<3>();
}
#[kani::proof]
#[kani::unwind(9)]
fn tasks_history_n4() {
    run::<4>();
}
#[kani::proof]
#[kani::unwind(9)]
fn tasks_history_n5() {
    run::<5>();
}
