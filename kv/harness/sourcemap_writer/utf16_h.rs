// C06 — utf16_len: generated columns are counted in UTF-16 code units.
// Child module of source_writer/utf16_len.rs (scratch copy only).
use super::utf16_len;

/// Reference from the Unicode standard: a scalar value below U+10000 is one UTF-16 code unit,
/// anything above is a surrogate pair.
fn units(c: char) -> usize {
    if (c as u32) < 0x10000 { 1 } else { 2 }
}

fn encode(cs: &[char; 3], n: usize, out: &mut [u8; 12]) -> usize {
    let mut len = 0;
    let mut i = 0;
    while i < n {
        let mut tmp = [0u8; 4];
        let e = cs[i].encode_utf8(&mut tmp);
        let eb = e.as_bytes();
        let mut j = 0;
        while j < eb.len() {
            out[len] = eb[j];
            len += 1;
            j += 1;
        }
        i += 1;
    }
    len
}

#[kani::proof]
#[kani::unwind(14)]
fn utf16_len_3chars() {
    let cs: [char; 3] = [kani::any(), kani::any(), kani::any()];
    let n: usize = kani::any();
    kani::assume(n <= 3);
    let mut buf = [0u8; 12];
    let len = encode(&cs, n, &mut buf);
    // encode_utf8 output is valid UTF-8 by construction (validating it again costs CBMC minutes)
    let s = unsafe { core::str::from_utf8_unchecked(&buf[..len]) };
    let got = utf16_len(s);
    let mut want = 0;
    let mut i = 0;
    while i < n {
        want += units(cs[i]);
        i += 1;
    }
    #[cfg(not(verif_mutant))]
    assert!(got == want, "C06: utf16_len == number of UTF-16 code units");
    #[cfg(verif_mutant)]
    assert!(got == n, "mutant oracle (counts chars): must be refuted");
    kani::cover!(n == 3 && want == 6, "three astral characters");
    kani::cover!(n == 2 && want == 3, "mixed BMP/astral");
    kani::cover!(n == 0, "empty string");
}
