// C16 — sourcemap-writer/src/js_string_writer.rs JsStringWriter: the text written through it,
// wrapped in the backticks the writer adds, must be an ECMAScript template literal WITHOUT
// substitutions whose cooked value is "\n" + text. Child module of js_string_writer.rs (scratch copy).
use super::JsStringWriter;
use crate::SourceMapWriter;
use verif_models::sink;

#[path = "../searcher_stub.rs"]
mod searcher_stub;

const MAXC: usize = 4;
const ALPHA: [char; 7] = ['\\', '`', '$', '{', '\n', 'a', '}'];

struct SymStr {
    chars: [char; MAXC],
    n: usize,
    bytes: [u8; MAXC],
}
fn any_str(maxn: usize) -> SymStr {
    // the alphabet is ASCII: one byte per char
    let mut s = SymStr { chars: ['a'; MAXC], n: kani::any(), bytes: [0; MAXC] };
    kani::assume(s.n <= maxn);
    let mut i = 0;
    while i < maxn {
        if i < s.n {
            let k: usize = kani::any();
            kani::assume(k < ALPHA.len());
            s.chars[i] = ALPHA[k];
            s.bytes[i] = ALPHA[k] as u8;
        }
        i += 1;
    }
    s
}

/// Reference: cooked value (ECMA-262 "Static Semantics: TV") of a no-substitution template literal
/// spanning all of b[..len]. None if the text is not exactly one such literal (e.g. contains an
/// unescaped backtick or `${`).
fn template_cooked(b: &[u8; sink::CAP], len: usize) -> Option<([u8; 2 * MAXC + 2], usize)> {
    let mut out = [0u8; 2 * MAXC + 2];
    let mut n = 0;
    if len < 2 || b[0] != b'`' {
        return None;
    }
    let mut i = 1;
    loop {
        if i >= len {
            return None; // unterminated
        }
        let c = b[i];
        if c == b'`' {
            return if i + 1 == len { Some((out, n)) } else { None };
        }
        let v;
        if c == b'$' {
            if i + 1 < len && b[i + 1] == b'{' {
                return None; // a substitution starts here
            }
            v = c;
            i += 1;
        } else if c == b'\\' {
            if i + 1 >= len {
                return None;
            }
            let e = b[i + 1];
            // the escapes this writer can emit; any other ASCII punctuation after `\` denotes itself
            // (NonEscapeCharacter), letters/digits would be real escapes and are rejected here
            if e == b'\\' || e == b'`' || e == b'$' || e == b'{' || e == b'}' {
                v = e;
            } else {
                return None;
            }
            i += 2;
        } else {
            v = c; // LF is a LineTerminatorSequence whose TV is LF; no CR in the alphabet
            i += 1;
        }
        if n >= out.len() {
            return None;
        }
        out[n] = v;
        n += 1;
    }
}

macro_rules! js_harness {
    ($name:ident, $n:expr, $unw:expr, $two:expr) => {
        #[kani::proof]
        #[kani::stub(alloc::string::String::push, sink::string_push)]
        #[kani::stub(alloc::string::String::push_str, sink::string_push_str)]
        #[kani::stub(<core::str::pattern::CharSearcher as core::str::pattern::Searcher>::next_match, searcher_stub::char_searcher_next_match)]
        #[kani::unwind($unw)]
        fn $name() {
            let s = any_str($n);
            let text = unsafe { core::str::from_utf8_unchecked(&s.bytes[..s.n]) };
            let mut buf = String::new();
            {
                let mut w = JsStringWriter::new(&mut buf);
                if $two {
                    // the same text in two write() calls split at a symbolic position
                    let cut: usize = kani::any();
                    kani::assume(cut <= s.n);
                    let (a, b) = text.split_at(cut);
                    w.write(a);
                    w.write(b);
                } else {
                    w.write(text);
                }
                // Drop appends the closing backtick. The writer's own `indent_str` was created by
                // `String::new()`; swap in an explicitly empty String before the drop glue runs
                // (Kani artefact: String::new() constants may carry a non-zero capacity, DESIGN section 5).
                core::mem::forget(core::mem::replace(&mut w.indent_str, sink::empty_string()));
            }
            let (out, len) = sink::contents(&buf);
            let cooked = template_cooked(&out, len);
            assert!(cooked.is_some(), "C16: output is one template literal without substitutions");
            let (v, n) = cooked.unwrap();
            #[cfg(not(verif_mutant))]
            assert!(n == s.n + 1 && v[0] == b'\n', "C16: cooked value is a line feed followed by the text");
            #[cfg(verif_mutant)]
            assert!(n + 2 == len, "mutant oracle (nothing is ever escaped): must be refuted");
            let mut i = 0;
            while i < s.n {
                assert!(v[i + 1] == s.bytes[i], "C16: cooked template value equals the text written");
                i += 1;
            }
            kani::cover!(s.n >= 2 && s.chars[0] == '$' && s.chars[1] == '{', "text containing ${");
            kani::cover!(s.n >= 1 && s.chars[0] == '`', "text containing a backtick");
            kani::cover!(s.n >= 2 && s.chars[1] == '\n', "text containing a line feed");
            core::mem::forget(buf);
        }
    };
}
js_harness!(js_string_one_write_n2, 2, 9, false);
js_harness!(js_string_one_write_n3, 3, 12, false);
js_harness!(js_string_one_write_n4, 4, 16, false);
js_harness!(js_string_two_writes_n2, 2, 9, true);
