// C06 — SourceWriter::write: generated line/column tracking in UTF-16 units with deferred
// indentation. Child module of crates/sourcemap-writer/src/source_writer.rs (scratch copy only).
//
// Two write() calls with symbolic texts, optionally after indent(); afterwards the writer's private
// cursor (current_line, current_column) must be where a reference computation over the texts puts
// it, and the emitted bytes must be the texts with the indentation inserted lazily before the
// first non-empty content of each new line.
use super::SourceWriter;
use crate::SourceMapWriter;
use verif_models::sink;

#[path = "../searcher_stub.rs"]
mod searcher_stub;

const MAXC: usize = 2;
const ALPHA: [char; 3] = ['a', '\n', '\u{1F600}'];

#[derive(Clone, Copy)]
struct Txt {
    chars: [char; MAXC],
    n: usize,
    bytes: [u8; 4 * MAXC],
    blen: usize,
}
fn any_txt() -> Txt {
    let mut t = Txt { chars: ['a'; MAXC], n: kani::any(), bytes: [0; 4 * MAXC], blen: 0 };
    kani::assume(t.n <= MAXC);
    let mut i = 0;
    while i < MAXC {
        if i < t.n {
            let k: usize = kani::any();
            kani::assume(k < ALPHA.len());
            let c = ALPHA[k];
            t.chars[i] = c;
            let mut tmp = [0u8; 4];
            let e = c.encode_utf8(&mut tmp).as_bytes();
            let mut j = 0;
            while j < e.len() {
                t.bytes[t.blen] = e[j];
                t.blen += 1;
                j += 1;
            }
        }
        i += 1;
    }
    t
}

/// Reference model of the cursor and of the emitted text.
struct Ref {
    line: usize,
    col: usize,          // UTF-16 units
    pending_indent: bool,
    indent: usize,
    olen: usize,
    text_ok: bool,
}
impl Ref {
    /// streaming comparison: the k-th expected byte against the k-th emitted byte
    fn put(&mut self, b: u8, out: &[u8; sink::CAP], len: usize) {
        if !(self.olen < len && out[self.olen] == b) {
            self.text_ok = false;
        }
        self.olen += 1;
    }
    fn write(&mut self, t: &Txt, out: &[u8; sink::CAP], len: usize) {
        let mut i = 0;
        while i < t.n {
            let c = t.chars[i];
            if c == '\n' {
                self.put(b'\n', out, len);
                self.line += 1;
                self.col = 0;
                self.pending_indent = true;
            } else {
                if self.pending_indent {
                    let mut k = 0;
                    while k < self.indent {
                        self.put(b' ', out, len);
                        k += 1;
                    }
                    self.col += self.indent;
                    self.pending_indent = false;
                }
                let mut tmp = [0u8; 4];
                let e = c.encode_utf8(&mut tmp).as_bytes();
                let mut j = 0;
                while j < e.len() {
                    self.put(e[j], out, len);
                    j += 1;
                }
                self.col += if (c as u32) < 0x10000 { 1 } else { 2 };
            }
            i += 1;
        }
    }
}

#[kani::proof]
#[kani::stub(alloc::string::String::push, sink::string_push)]
#[kani::stub(alloc::string::String::push_str, sink::string_push_str)]
#[kani::stub(<core::str::pattern::CharSearcher as core::str::pattern::Searcher>::next_match, searcher_stub::char_searcher_next_match)]
#[kani::unwind(10)]
fn source_writer_cursor_two_writes() {
    let t1 = any_txt();
    let t2 = any_txt();
    let with_indent: bool = kani::any();
    let mut w = SourceWriter::new();
    let mut r = Ref { line: 0, col: 0, pending_indent: false, indent: 0, olen: 0, text_ok: true };
    if with_indent {
        // SourceWriter::indent builds `" ".repeat(2)`; here the two-space string is installed
        // directly so that str::repeat need not be executed (its result feeds push_str later)
        w.indent = 2;
        // replace without dropping the old (empty) String: its drop trips over a Kani artefact
        // (String::new() constants can come out with a non-zero capacity; DESIGN section 5)
        core::mem::forget(core::mem::replace(&mut w.indent_str, String::from("  ")));
        r.indent = 2;
    }
    w.write(unsafe { core::str::from_utf8_unchecked(&t1.bytes[..t1.blen]) });
    let (o1, l1) = sink::contents(&w.buffer);
    r.write(&t1, &o1, l1);
    w.write(unsafe { core::str::from_utf8_unchecked(&t2.bytes[..t2.blen]) });
    let (o2, l2) = sink::contents(&w.buffer);
    r.write(&t2, &o2, l2);
    #[cfg(not(verif_mutant))]
    assert!(w.current_line == r.line && w.current_column == r.col, "C06: write() leaves the cursor at the UTF-16 position after the text");
    #[cfg(verif_mutant)]
    assert!(w.current_line == r.line && w.current_column == t2.n, "mutant oracle (counts chars, ignores indentation): must be refuted");
    assert!(l2 == r.olen, "C06: emitted text has the expected length (indentation inserted lazily)");
    assert!(r.text_ok, "C06: emitted text is the written text plus lazy indentation");
    kani::cover!(with_indent && r.line >= 1 && r.col > 2, "indented content after a line break");
    kani::cover!(r.col == 4 && r.line == 0, "two astral characters on one line");
    kani::cover!(t1.n == 2 && t1.chars[1] == '\n' && t2.n >= 1 && t2.chars[0] == '\n', "line break at the end of one write and the start of the next");
    core::mem::forget(w);
}
