// C06 — delta encoding of source-map segments (MappingWriter::add_entry), for every sequence of
// k entries. Child module of source_writer/mapping_writer.rs (scratch copy only).
//
// Compositional set-up: base64_vlq is proven a faithful VLQ encoder for every isize by
// vlq_roundtrip_full; here it is stubbed by a function that *logs its argument*, and the String
// appends are stubbed by functions that log the separators. The harness then runs a reference
// Source Map v3 `mappings` decoder over the logged token stream and compares the decoded absolute
// segments with the arguments that were passed to add_entry.
use super::MappingWriter;

#[derive(Clone, Copy, PartialEq)]
enum Tok {
    None,
    Vlq(isize),
    Comma,
    Semis(usize),
    Other,
}

static mut PENDING: Tok = Tok::None;
static mut STUBBED: bool = false;

// ---- reference decoder of the token stream (Source Map v3, "mappings"), streaming --------------
#[derive(Clone, Copy, PartialEq)]
struct Seg {
    gl: i64,
    gc: i64,
    src: i64,
    ol: i64,
    oc: i64,
    name: Option<i64>,
}
const NOSEG: Seg = Seg { gl: -1, gc: -1, src: -1, ol: -1, oc: -1, name: None };

struct Dec {
    gl: i64,
    gc: i64,
    src: i64,
    ol: i64,
    oc: i64,
    nm: i64,
    f: [i64; 5],
    nf: usize,
    segs: [Seg; 4],
    n: usize,
    ok: bool,
}
static mut DEC: Dec = Dec { gl: 0, gc: 0, src: 0, ol: 0, oc: 0, nm: 0, f: [0; 5], nf: 0, segs: [NOSEG; 4], n: 0, ok: true };

fn log_tok(t: Tok) {
    let d = unsafe { &mut *core::ptr::addr_of_mut!(DEC) };
    match t {
        Tok::Vlq(v) => {
            if d.nf >= 5 {
                d.ok = false;
                return;
            }
            d.f[d.nf] = v as i64;
            d.nf += 1;
        }
        Tok::Comma | Tok::Semis(_) => {
            if d.nf > 0 {
                // close the segment: 4 or 5 fields (1-field segments are legal but never emitted here)
                if (d.nf != 4 && d.nf != 5) || d.n >= 4 {
                    d.ok = false;
                    return;
                }
                d.gc += d.f[0];
                d.src += d.f[1];
                d.ol += d.f[2];
                d.oc += d.f[3];
                let name = if d.nf == 5 {
                    d.nm += d.f[4];
                    Some(d.nm)
                } else {
                    None
                };
                d.segs[d.n] = Seg { gl: d.gl, gc: d.gc, src: d.src, ol: d.ol, oc: d.oc, name };
                d.n += 1;
                d.nf = 0;
            }
            if let Tok::Semis(k) = t {
                if k > 0 {
                    d.gl += k as i64;
                    d.gc = 0; // every ';' starts a new generated line: the column resets
                }
            }
        }
        Tok::None | Tok::Other => d.ok = false,
    }
}

// ---- stubs (Kani only) -------------------------------------------------------------------------
fn vlq_stub(input: isize) -> String {
    unsafe {
        STUBBED = true;
        PENDING = Tok::Vlq(input);
    }
    String::new()
}
fn repeat_stub(s: &str, n: usize) -> String {
    unsafe {
        PENDING = if s.len() == 1 && s.as_bytes()[0] == b';' { Tok::Semis(n) } else { Tok::Other };
    }
    String::new()
}
fn push_str_stub(_b: &mut String, _s: &str) {
    unsafe {
        let p = PENDING;
        PENDING = Tok::None;
        match p {
            Tok::None => log_tok(Tok::Other), // a literal push_str: add_entry has none
            t => log_tok(t),
        }
    }
}
fn push_stub(_b: &mut String, c: char) {
    log_tok(if c == ',' { Tok::Comma } else { Tok::Other });
}

// ---- native fallback for concrete playback: tokenize the real mappings string -----------------
fn b64_digit(c: u8) -> Option<u8> {
    match c {
        b'A'..=b'Z' => Some(c - b'A'),
        b'a'..=b'z' => Some(c - b'a' + 26),
        b'0'..=b'9' => Some(c - b'0' + 52),
        b'+' => Some(62),
        b'/' => Some(63),
        _ => None,
    }
}
fn tokenize_native(s: &str) {
    let b = s.as_bytes();
    let mut i = 0;
    while i < b.len() {
        if b[i] == b';' {
            log_tok(Tok::Semis(1));
            i += 1;
        } else if b[i] == b',' {
            log_tok(Tok::Comma);
            i += 1;
        } else {
            let mut acc: u128 = 0;
            let mut shift = 0u32;
            loop {
                let d = match b.get(i).and_then(|c| b64_digit(*c)) {
                    Some(d) => d,
                    None => {
                        log_tok(Tok::Other);
                        return;
                    }
                };
                i += 1;
                acc |= ((d & 31) as u128) << shift;
                shift += 5;
                if d & 32 == 0 {
                    break;
                }
            }
            let mag = (acc >> 1) as i128;
            log_tok(Tok::Vlq((if acc & 1 == 1 { -mag } else { mag }) as isize));
        }
    }
}

#[derive(Clone, Copy)]
struct Entry {
    gl: usize,
    gc: usize,
    ol: usize,
    oc: usize,
    file: usize,
    name: Option<usize>,
}

const LIM: usize = 1 << 62; // positions below 2^62: `as isize` is value-preserving, differences cannot overflow

fn any_entry(prev_line: usize) -> Entry {
    let e = Entry {
        gl: kani::any(),
        gc: kani::any(),
        ol: kani::any(),
        oc: kani::any(),
        file: kani::any(),
        name: if kani::any() { Some(kani::any()) } else { None },
    };
    // precondition that SourceWriter guarantees by construction: generated lines never go backwards
    // at most 3 generated lines are skipped per entry: under Kani `";".repeat(n)` is a stub, but a
    // counterexample must also replay natively, where repeat(n) really allocates n bytes
    kani::assume(e.gl >= prev_line && e.gl <= prev_line + 3);
    kani::assume(e.gc < LIM && e.ol < LIM && e.oc < LIM && e.file < LIM);
    if let Some(n) = e.name {
        kani::assume(n < LIM);
    }
    e
}

fn run(entries: &[Entry], k: usize) {
    let mut w = MappingWriter::new();
    let mut i = 0;
    while i < k {
        let e = entries[i];
        w.add_entry(e.gl, e.gc, e.ol, e.oc, e.file, e.name);
        i += 1;
    }
    let buf = w.into_buffer();
    if unsafe { !STUBBED } {
        tokenize_native(&buf);
    }
    core::mem::forget(buf);
    log_tok(Tok::Comma); // end of input closes the last segment
    let d = unsafe { &*core::ptr::addr_of!(DEC) };
    assert!(d.ok, "C06: mappings token stream is well-formed (4/5-field segments, only ; and , separators)");
    assert!(d.n == k, "C06: exactly one decoded segment per add_entry call");
    let mut j = 0;
    while j < k {
        let e = entries[j];
        let s = d.segs[j];
        #[cfg(not(verif_mutant))]
        let want_gc = e.gc as i64;
        #[cfg(verif_mutant)]
        let want_gc = e.gc as i64 + if j == 1 { 1 } else { 0 };
        assert!(s.gl == e.gl as i64 && s.gc == want_gc, "C06: decoded generated position == input");
        assert!(s.src == e.file as i64, "C06: decoded source index == input");
        assert!(s.ol == e.ol as i64 && s.oc == e.oc as i64, "C06: decoded original position == input");
        assert!(s.name == e.name.map(|n| n as i64), "C06: decoded name index == input");
        j += 1;
    }
}

macro_rules! mapping_harness {
    ($name:ident, $k:expr, $unw:expr) => {
        #[kani::proof]
        #[kani::stub(crate::base64_vlq::base64_vlq, vlq_stub)]
        #[kani::stub(str::repeat, repeat_stub)]
        #[kani::stub(alloc::string::String::push_str, push_str_stub)]
        #[kani::stub(alloc::string::String::push, push_stub)]
        #[kani::unwind($unw)]
        fn $name() {
            let mut es = [Entry { gl: 0, gc: 0, ol: 0, oc: 0, file: 0, name: None }; $k];
            let mut prev = 0usize;
            let mut i = 0;
            while i < $k {
                es[i] = any_entry(prev);
                prev = es[i].gl;
                i += 1;
            }
            run(&es, $k);
            kani::cover!($k >= 2 && es[1].gl == es[0].gl && es[1].gc < es[0].gc, "same line, column going backwards (negative delta)");
            kani::cover!($k >= 2 && es[1].gl > es[0].gl + 1, "skipping more than one line");
            kani::cover!($k >= 2 && es[0].name.is_some() && es[1].name.is_none(), "name then no name");
            kani::cover!(es[0].gl == 0, "first entry on line 0 (leading comma case)");
        }
    };
}
mapping_harness!(mapping_delta_k2, 2, 6);
mapping_harness!(mapping_delta_k3, 3, 6);
mapping_harness!(mapping_delta_k4, 4, 6);
