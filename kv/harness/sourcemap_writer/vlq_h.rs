// C06 / C08 — base64 VLQ kernel. Child module of base64_vlq/mod.rs (scratch copy only).
// Oracle: a Source Map v3 VLQ *decoder* written from the specification:
//   each char is a base64 digit (A-Z a-z 0-9 + /) = 6 bits; bit 5 (0x20) = continuation;
//   the low 5 bits are data, little-endian; after assembling, bit 0 is the sign and the
//   remaining bits the magnitude.
use super::base64_vlq;
use verif_models::sink;

fn b64_digit(c: u8) -> Option<u8> {
    match c {
        b'A'..=b'Z' => Some(c - b'A'),
        b'a'..=b'z' => Some(c - b'a' + 26),
        b'0'..=b'9' => Some(c - b'0' + 52),
        b'+' => Some(62),
        b'/' => Some(63),
        _ => None,
    }
}

/// Decodes exactly one VLQ value that must span the whole of `bytes`.
/// Returns None when the text is not one well-formed VLQ quantity.
fn vlq_decode_one(bytes: &[u8; sink::CAP], n: usize) -> Option<i128> {
    let mut acc: u128 = 0;
    let mut shift: u32 = 0;
    let mut i = 0;
    if n == 0 || n > 14 {
        return None;
    }
    while i < n {
        let d = b64_digit(bytes[i])?;
        let cont = d & 0x20 != 0;
        acc |= ((d & 0x1f) as u128) << shift;
        shift += 5;
        i += 1;
        if cont != (i < n) {
            // continuation bit must be set on every digit except the last one
            return None;
        }
    }
    let mag = (acc >> 1) as i128;
    if acc & 1 == 1 {
        // "-0" is not produced by a correct encoder
        if mag == 0 {
            return None;
        }
        Some(-mag)
    } else {
        Some(mag)
    }
}

fn check_roundtrip(n: isize) {
    let s = base64_vlq(n);
    let (out, len) = sink::contents(&s);
    let got = vlq_decode_one(&out, len);
    #[cfg(not(verif_mutant))]
    assert!(got == Some(n as i128), "C06: decode(encode(n)) == n");
    #[cfg(verif_mutant)]
    assert!(got == Some((n as i128) + 1), "mutant oracle: must be refuted");
    kani::cover!(len >= 2, "multi-digit encoding reached");
    kani::cover!(n < 0, "negative reached");
    core::mem::forget(s);
}

/// Every isize (full 64-bit range; 13 digits at most => unwind 15 covers the loop completely,
/// the unwinding assertion proves it).
#[kani::proof]
#[kani::stub(alloc::string::String::push, sink::string_push)]
#[kani::stub(<alloc::string::String as core::convert::From<char>>::from, sink::string_from_char)]
#[kani::unwind(15)]
fn vlq_roundtrip_full() {
    let n: isize = kani::any();
    check_roundtrip(n);
    kani::cover!(n == isize::MIN, "isize::MIN reached");
    kani::cover!(n == 16, "first two-digit value reached");
}

/// C08: no panic / overflow / out-of-bounds for any isize at all, and 1..=13 digits.
#[kani::proof]
#[kani::stub(alloc::string::String::push, sink::string_push)]
#[kani::stub(<alloc::string::String as core::convert::From<char>>::from, sink::string_from_char)]
#[kani::unwind(15)]
fn vlq_no_panic_full_range() {
    let n: isize = kani::any();
    let s = base64_vlq(n);
    let (_out, len) = sink::contents(&s);
    #[cfg(not(verif_mutant))]
    assert!(len >= 1 && len <= 13, "C08: 1..=13 base64 digits");
    #[cfg(verif_mutant)]
    assert!(len >= 1 && len <= 12, "mutant oracle: must be refuted");
    kani::cover!(len == 13, "13-digit encoding reached");
    kani::cover!(len == 1, "1-digit encoding reached");
    core::mem::forget(s);
}
