// C11 — the per-kind registry ExtensionList: which definitions survive, in which order, with which
// extensions, and exactly when it fails. Child module of schema_extension_resolver/extension_list.rs
// (scratch copy; indexmap::IndexMap -> vmap::IndexMap, Vec -> bvec::Vec).
//
// ExtensionList is generic in its item types; this harness instantiates it with two small Copy
// structs implementing the real `HasPos` trait (instantiation: ExtensionList<Orig, Ext>).
use super::{ExtensionErrorMessage, ExtensionList};
use nitrogql_ast::base::{HasPos, Pos};

const NAMES: [&str; 2] = ["A", "B"];

#[derive(Clone, Copy)]
struct Orig {
    key: u8, // 0 = "A", 1 = "B", 2 = unnamed (schema definition)
    pos: Pos,
    tag: u8,
}
#[derive(Clone, Copy)]
struct Ext {
    key: u8,
    pos: Pos,
    tag: u8,
}
impl HasPos for Orig {
    fn position(&self) -> &Pos {
        &self.pos
    }
    fn name(&self) -> Option<&str> {
        if self.key < 2 { Some(NAMES[self.key as usize]) } else { None }
    }
}
impl HasPos for Ext {
    fn position(&self) -> &Pos {
        &self.pos
    }
    fn name(&self) -> Option<&str> {
        if self.key < 2 { Some(NAMES[self.key as usize]) } else { None }
    }
}

#[derive(Clone, Copy)]
struct Op {
    is_orig: bool,
    key: u8,
    line: usize,
    col: usize,
}

fn any_op() -> Op {
    let o = Op { is_orig: kani::any(), key: kani::any(), line: kani::any(), col: kani::any() };
    kani::assume(o.key < 3 && o.line < 3 && o.col < 2);
    o
}
fn p(o: &Op) -> Pos {
    Pos { line: o.line, column: o.col, file: 0, builtin: false }
}
fn same_pos(a: &Pos, o: &Op) -> bool {
    a.line == o.line && a.column == o.col
}

/// Runs the script against the real registry and checks the outcome against the reference
/// semantics computed directly from the script.
fn run_script<const N: usize>(ops: &[Op; N]) {
    // ---------- reference, from the statement ----------
    // first original per key, duplicate detection in script order
    let mut first_orig: [Option<usize>; 3] = [None; 3];
    let mut dup: Option<(usize, usize)> = None; // (index of first, index of second)
    let mut i = 0;
    while i < N {
        if dup.is_none() && ops[i].is_orig {
            let k = ops[i].key as usize;
            match first_orig[k] {
                None => first_orig[k] = Some(i),
                Some(f) => dup = Some((f, i)),
            }
        }
        i += 1;
    }
    // ---------- real code ----------
    let mut list: ExtensionList<Orig, Ext> = ExtensionList::new("thing");
    let mut failed_at: Option<usize> = None;
    let mut i = 0;
    while i < N {
        let o = ops[i];
        if o.is_orig {
            let r = list.set_original(Orig { key: o.key, pos: p(&o), tag: i as u8 });
            if let Err(e) = r {
                match e.message {
                    ExtensionErrorMessage::DuplicateOriginal { first, second, .. } => {
                        let d = dup;
                        assert!(d.is_some(), "C11: duplicate reported only for a name defined twice");
                        let (f, s) = d.unwrap();
                        assert!(s == i, "C11: duplicate reported at the second definition");
                        #[cfg(not(verif_mutant))]
                        assert!(same_pos(&first, &ops[f]) && same_pos(&second, &ops[s]), "C11: duplicate diagnostic points at both definitions");
                        #[cfg(verif_mutant)]
                        assert!(same_pos(&second, &ops[f]), "mutant oracle: must be refuted");
                    }
                    _ => assert!(false, "C11: set_original only fails with DuplicateOriginal"),
                }
                core::mem::forget(e);
                failed_at = Some(i);
                break;
            }
        } else {
            list.add_extension(Ext { key: o.key, pos: p(&o), tag: i as u8 });
        }
        i += 1;
    }
    if let Some((_, s)) = dup {
        assert!(failed_at == Some(s), "C11: a name defined twice is rejected (at the second definition)");
        kani::cover!(true, "duplicate definition path");
        core::mem::forget(list);
        return;
    }
    assert!(failed_at.is_none(), "C11: no spurious duplicate error");
    // orphan extensions: some key has an extension but no original
    let mut orphan = [false; 3];
    let mut any_orphan = false;
    let mut i = 0;
    while i < N {
        if !ops[i].is_orig && first_orig[ops[i].key as usize].is_none() {
            orphan[ops[i].key as usize] = true;
            any_orphan = true;
        }
        i += 1;
    }
    let res = list.into_original_and_extensions();
    match res {
        Err(e) => {
            assert!(any_orphan, "C11: failure only when an extension has no definition");
            match &e.message {
                ExtensionErrorMessage::NoOriginal { first_extension, .. } => {
                    // the diagnostic is at the first extension of some orphan name
                    let mut ok = false;
                    let mut seen = [false; 3];
                    let mut i = 0;
                    while i < N {
                        let k = ops[i].key as usize;
                        if !ops[i].is_orig && orphan[k] && !seen[k] {
                            seen[k] = true;
                            if same_pos(first_extension, &ops[i]) {
                                ok = true;
                            }
                        }
                        i += 1;
                    }
                    assert!(ok, "C11: orphan diagnostic is at the first extension of an undefined name");
                }
                _ => assert!(false, "C11: into_original_and_extensions only fails with NoOriginal"),
            }
            kani::cover!(true, "orphan extension path");
            core::mem::forget(e);
        }
        Ok(v) => {
            assert!(!any_orphan, "C11: an extension without definition is rejected");
            // one entry per defined name
            let mut ndef = 0;
            let mut k = 0;
            while k < 3 {
                if first_orig[k].is_some() {
                    ndef += 1;
                }
                k += 1;
            }
            assert!(v.len() == ndef, "C11: one merged entry per definition, nothing invented");
            let mut j = 0;
            while j < v.len() {
                let (o, exts) = &v[j];
                let k = o.key as usize;
                assert!(first_orig[k] == Some(o.tag as usize), "C11: entry carries the original definition");
                // extensions of that name, in arrival order, wherever they stood relative to the definition
                let mut e = 0;
                let mut i = 0;
                while i < N {
                    if !ops[i].is_orig && ops[i].key as usize == k {
                        assert!(e < exts.len() && exts[e].tag as usize == i, "C11: extensions in document order, none lost");
                        e += 1;
                    }
                    i += 1;
                }
                assert!(e == exts.len(), "C11: no extension invented or attached to the wrong name");
                // stable order by position of the definition
                if j > 0 {
                    let (po, _) = &v[j - 1];
                    let a = (po.pos.line, po.pos.column);
                    let b = (o.pos.line, o.pos.column);
                    assert!(a < b || (a == b && po.tag < o.tag), "C11: definitions ordered by position, stably");
                }
                j += 1;
            }
            kani::cover!(v.len() == 2 && v[0].0.tag > v[1].0.tag, "result reordered by position");
            kani::cover!(v.len() >= 1 && v[0].1.len() == N - 1, "all extensions merged into one definition");
            kani::cover!(v.len() >= 1 && v[0].1.len() >= 1 && v[0].1[0].tag < v[0].0.tag, "extension preceding its definition");
            core::mem::forget(v);
        }
    }
}

#[kani::proof]
#[kani::unwind(5)]
fn extlist_script_n2() {
    let ops: [Op; 2] = [any_op(), any_op()];
    run_script(&ops);
}

#[kani::proof]
#[kani::unwind(6)]
fn extlist_script_n3() {
    let ops: [Op; 3] = [any_op(), any_op(), any_op()];
    run_script(&ops);
}

#[kani::proof]
#[kani::unwind(7)]
fn extlist_script_n4() {
    let ops: [Op; 4] = [any_op(), any_op(), any_op(), any_op()];
    run_script(&ops);
}
