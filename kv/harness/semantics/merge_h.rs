// C11 — field-by-field concatenation in merge_*_definition.
// Child module of crates/semantics/src/schema_extension_resolver/mod.rs (scratch copy only).
//
// Every list entry carries a distinct tag in its position (line = tag), so the oracle can say
// exactly which entry ended up where:  result list == original ++ ext1 ++ ext2, elementwise.
use super::*;
use nitrogql_ast::base::{Ident, Keyword, Pos};
use nitrogql_ast::directive::Directive;
use nitrogql_ast::operation::OperationType;
use nitrogql_ast::type_system::*;

const MAXN: usize = 1;

fn pos(tag: usize) -> Pos {
    Pos { line: tag, column: 0, file: 0, builtin: false }
}
fn ident(tag: usize) -> Ident<'static> {
    Ident { name: "n", position: pos(tag) }
}
fn kw() -> Keyword<'static> {
    Keyword { name: "k", position: pos(999) }
}
fn any_len() -> usize {
    let n: usize = kani::any();
    kani::assume(n <= MAXN);
    n
}
fn any_len1() -> usize {
    let n: usize = kani::any();
    kani::assume(n <= 1);
    n
}
fn dirs(n: usize, base: usize) -> Vec<Directive<'static>> {
    let mut v = Vec::with_capacity(MAXN);
    let mut i = 0;
    while i < n {
        v.push(Directive { position: pos(base + i), name: ident(base + i), arguments: None });
        i += 1;
    }
    v
}
fn idents(n: usize, base: usize) -> Vec<Ident<'static>> {
    let mut v = Vec::with_capacity(MAXN);
    let mut i = 0;
    while i < n {
        v.push(ident(base + i));
        i += 1;
    }
    v
}

/// expected tag at index k of  orig(l0, base0) ++ ext1(l1, base1) ++ ext2(l2, base2)
fn expected_tag(k: usize, lens: [usize; 3], bases: [usize; 3]) -> usize {
    if k < lens[0] {
        bases[0] + k
    } else if k < lens[0] + lens[1] {
        bases[1] + (k - lens[0])
    } else {
        bases[2] + (k - lens[0] - lens[1])
    }
}

macro_rules! check_list {
    ($list:expr, $tag:expr, $lens:expr, $bases:expr, $what:literal) => {{
        let l = &$list;
        #[cfg(not(verif_mutant))]
        assert!(l.len() == $lens[0] + $lens[1] + $lens[2], concat!("C11: ", $what, ": nothing lost, nothing invented"));
        #[cfg(verif_mutant)]
        assert!(l.len() == $lens[0] + $lens[1], concat!("mutant oracle (", $what, "): must be refuted"));
        let mut k = 0;
        while k < l.len() {
            assert!($tag(&l[k]) == expected_tag(k, $lens, $bases), concat!("C11: ", $what, " == original ++ extensions in order"));
            k += 1;
        }
    }};
}

/// number of extensions is symbolic too (0, 1 or 2): an absent extension contributes length 0
fn any_ext_count() -> usize {
    let n: usize = kani::any();
    kani::assume(n <= 2);
    n
}

#[kani::proof]
#[kani::unwind(5)]
fn merge_scalar_concat() {
    let ne = any_ext_count();
    let l0 = any_len();
    let l1 = if ne >= 1 { any_len1() } else { 0 };
    let l2 = if ne >= 2 { any_len1() } else { 0 };
    let orig = ScalarTypeDefinition {
        description: None,
        position: pos(1),
        name: ident(2),
        directives: dirs(l0, 10),
        scalar_keyword: kw(),
    };
    let mut exts = Vec::with_capacity(2);
    if ne >= 1 {
        exts.push(ScalarTypeExtension { position: pos(3), name: ident(4), directives: dirs(l1, 20) });
    }
    if ne >= 2 {
        exts.push(ScalarTypeExtension { position: pos(5), name: ident(6), directives: dirs(l2, 30) });
    }
    let r = merge_scalar_definition((orig, exts));
    assert!(r.position.line == 1 && r.name.position.line == 2 && r.description.is_none(), "C11: scalar header is the original's");
    check_list!(r.directives, |d: &Directive| d.position.line, [l0, l1, l2], [10, 20, 30], "scalar directives");
    kani::cover!(ne == 2 && l0 == 1 && l1 == 1 && l2 == 1, "all lists full");
    kani::cover!(ne == 2 && l0 == 0 && l1 == 0 && l2 == 1, "only the second extension contributes");
    core::mem::forget(r);
}

#[kani::proof]
#[kani::unwind(8)]
fn merge_union_concat() {
    let ne = any_ext_count();
    let (d0, m0) = (any_len(), any_len());
    let (d1, m1) = if ne >= 1 { (any_len(), any_len()) } else { (0, 0) };
    let (d2, m2) = if ne >= 2 { (any_len(), any_len()) } else { (0, 0) };
    let orig = UnionTypeDefinition {
        description: None,
        position: pos(1),
        name: ident(2),
        directives: dirs(d0, 10),
        members: idents(m0, 40),
        union_keyword: kw(),
    };
    let mut exts = Vec::with_capacity(2);
    if ne >= 1 {
        exts.push(UnionTypeExtension { position: pos(3), name: ident(4), directives: dirs(d1, 20), members: idents(m1, 50) });
    }
    if ne >= 2 {
        exts.push(UnionTypeExtension { position: pos(5), name: ident(6), directives: dirs(d2, 30), members: idents(m2, 60) });
    }
    let r = merge_union_definition((orig, exts));
    assert!(r.position.line == 1 && r.name.position.line == 2, "C11: union header is the original's");
    check_list!(r.directives, |d: &Directive| d.position.line, [d0, d1, d2], [10, 20, 30], "union directives");
    check_list!(r.members, |d: &Ident| d.position.line, [m0, m1, m2], [40, 50, 60], "union members");
    kani::cover!(ne == 2 && m2 == 2 && d2 == 2, "second extension full");
    kani::cover!(ne == 1 && m0 == 0 && m1 == 1, "members only from the extension");
    core::mem::forget(r);
}
