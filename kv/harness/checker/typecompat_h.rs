// C03 / C04 — variable-usage typing: checker/src/common.rs check_type_compatibility (private)
// against the specification's AreTypesCompatible(variableType, locationType).
// Child module of crates/checker/src/common.rs (scratch copy only).
use super::check_type_compatibility;
use graphql_type_system::{ListType, NamedType, Node, NonNullType, Type};
use nitrogql_ast::base::Pos;

const NAMES: [&str; 2] = ["A", "B"];
pub const MAXW: usize = 4;

/// Instantiation of the generic parameter `S: Text`: an interned name. check_type_compatibility is
/// generic in S and uses S only through `==`; production instantiates it with &str / Cow<str>,
/// whose `==` is byte equality (a memcmp loop that costs CBMC an unwinding per byte and call).
#[derive(Clone, Copy, PartialEq, Eq, Hash, Debug)]
struct Sym(u8);
impl core::ops::Deref for Sym {
    type Target = str;
    fn deref(&self) -> &str {
        NAMES[self.0 as usize]
    }
}
impl core::borrow::Borrow<str> for Sym {
    fn borrow(&self) -> &str {
        NAMES[self.0 as usize]
    }
}
impl<'a> From<&'a str> for Sym {
    fn from(s: &'a str) -> Sym {
        if s == "A" { Sym(0) } else { Sym(1) }
    }
}
impl<'a> PartialEq<&'a str> for Sym {
    fn eq(&self, o: &&'a str) -> bool {
        NAMES[self.0 as usize] == *o
    }
}
impl PartialEq<String> for Sym {
    fn eq(&self, o: &String) -> bool {
        NAMES[self.0 as usize] == o.as_str()
    }
}
impl core::fmt::Display for Sym {
    fn fmt(&self, f: &mut core::fmt::Formatter<'_>) -> core::fmt::Result {
        f.write_str(NAMES[self.0 as usize])
    }
}
impl<'a> graphql_type_system::Text<'a> for Sym {}

/// Independent representation of a GraphQL type: wrappers from the outside in, then a name.
#[derive(Clone, Copy, PartialEq)]
enum W {
    List,
    NonNull,
}
#[derive(Clone, Copy)]
struct Shape {
    w: [W; MAXW],
    n: usize,
    name: usize,
}

#[allow(dead_code)]
fn any_shape(maxw: usize) -> Shape {
    let mut s = Shape { w: [W::List; MAXW], n: kani::any(), name: kani::any() };
    kani::assume(s.n <= maxw && s.name < 2);
    let mut i = 0;
    while i < MAXW {
        if i < s.n {
            s.w[i] = if kani::any() { W::List } else { W::NonNull };
            // `T!!` is not a GraphQL type
            if i > 0 {
                kani::assume(!(s.w[i] == W::NonNull && s.w[i - 1] == W::NonNull));
            }
        }
        i += 1;
    }
    s
}

/// Typed arena for the Box targets. Kani's allocator hands out untyped bytes, through which CBMC
/// propagates no constants, so a recursive walk over malloc'd Boxes never bottoms out in symbolic
/// execution (measured: 3^k calls up to the unwind bound). Boxes that point into typed locals are
/// tracked precisely. The trees are never dropped (mem::forget), so nothing is freed.
struct Arena {
    l: [ListType<Sym, Pos>; MAXW],
    n: [NonNullType<Sym, Pos>; MAXW],
}
fn leaf(name: u8) -> Type<Sym, Pos> {
    Type::Named(NamedType::from(Node::from(Sym(name), Pos::builtin())))
}
impl Arena {
    fn new() -> Arena {
        Arena {
            l: [ListType::from(leaf(0)), ListType::from(leaf(0)), ListType::from(leaf(0)), ListType::from(leaf(0))],
            n: [NonNullType::from(leaf(0)), NonNullType::from(leaf(0)), NonNullType::from(leaf(0)), NonNullType::from(leaf(0))],
        }
    }
}

/// Builds the real `Type` for a shape whose wrapper structure is CONCRETE (name symbolic).
fn build(a: &mut Arena, s: &Shape) -> Type<Sym, Pos> {
    let mut t = leaf(s.name as u8);
    let mut i = s.n;
    let mut k = 0;
    while i > 0 {
        i -= 1;
        t = match s.w[i] {
            W::List => {
                unsafe { core::ptr::write(&mut a.l[k], ListType::from(t)) };
                Type::List(unsafe { Box::from_raw(&mut a.l[k] as *mut ListType<Sym, Pos>) })
            }
            W::NonNull => {
                unsafe { core::ptr::write(&mut a.n[k], NonNullType::from(t)) };
                Type::NonNull(unsafe { Box::from_raw(&mut a.n[k] as *mut NonNullType<Sym, Pos>) })
            }
        };
        k += 1;
    }
    t
}

/// The i-th wrapper nesting (concrete): digits of `code` in base 3, 1 = List, 2 = NonNull,
/// most significant digit = outermost wrapper. None if `code` is not a well-formed GraphQL type.
fn shape_of_code(code: u32) -> Option<Shape> {
    let mut s = Shape { w: [W::List; MAXW], n: 0, name: 0 };
    let mut digs = [0u32; MAXW];
    let mut c = code;
    let mut n = 0;
    while c > 0 {
        if n >= MAXW {
            return None;
        }
        digs[n] = c % 3;
        c /= 3;
        n += 1;
    }
    let mut i = 0;
    while i < n {
        let d = digs[n - 1 - i];
        if d == 0 {
            return None;
        }
        s.w[i] = if d == 1 { W::List } else { W::NonNull };
        if i > 0 && s.w[i] == W::NonNull && s.w[i - 1] == W::NonNull {
            return None; // `T!!` is not a GraphQL type
        }
        i += 1;
    }
    s.n = n;
    Some(s)
}

/// AreTypesCompatible(variableType, locationType), GraphQL spec section 5.8.5, on shapes.
/// `vi`/`li` index the outermost remaining wrapper of each type.
fn spec_compatible(v: &Shape, l: &Shape) -> bool {
    let mut vi = 0;
    let mut li = 0;
    let mut fuel = 2 * MAXW + 2; // loop runs at most v.n + l.n + 1 times
    loop {
        assert!(fuel > 0);
        fuel -= 1;
        let l_nonnull = li < l.n && l.w[li] == W::NonNull;
        let v_nonnull = vi < v.n && v.w[vi] == W::NonNull;
        let l_list = li < l.n && l.w[li] == W::List;
        let v_list = vi < v.n && v.w[vi] == W::List;
        if l_nonnull {
            // 1. locationType is non-null: variableType must be non-null too; unwrap both
            if !v_nonnull {
                return false;
            }
            vi += 1;
            li += 1;
        } else if v_nonnull {
            // 2. variableType non-null, location nullable: unwrap the variable type
            vi += 1;
        } else if l_list {
            // 3. location is a list: variable must be a list; compare item types
            if !v_list {
                return false;
            }
            vi += 1;
            li += 1;
        } else if v_list {
            // 4. variable is a list but the location is not
            return false;
        } else {
            // 5. both named
            return v.name == l.name;
        }
    }
}

/// All pairs of well-formed wrapper nestings of depth <= maxw: the nesting of each side is chosen by
/// a SYMBOLIC selector (sv, sl) and the names are symbolic; CBMC forks one path per nesting pair
/// (the structure on each path is concrete, which is what lets the recursion terminate in symex).
/// every well-formed nesting code of depth <= 4, ascending (depth <= 2: first 6, depth <= 3: first 11)
const CODES: [u32; 19] = [0, 1, 2, 4, 5, 7, 13, 14, 16, 22, 23, 40, 41, 43, 49, 50, 67, 68, 70];

fn check(ncodes: usize, maxw: usize, want_c03: bool) {
    check_rows(0, ncodes, ncodes, maxw, want_c03)
}

/// rows [from, to) of the nesting table for the variable type x all `ncodes` nestings for the location
fn check_rows(from: usize, to: usize, ncodes: usize, maxw: usize, want_c03: bool) {
    let sv: u32 = kani::any();
    let sl: u32 = kani::any();
    let nv: usize = kani::any();
    let nl: usize = kani::any();
    kani::assume(nv < 2 && nl < 2);
    // arenas are reused across nesting pairs: `build` overwrites exactly the cells it links
    let mut a1 = Arena::new();
    let mut a2 = Arena::new();
    let mut iv = from;
    while iv < to {
        let cv = CODES[iv];
        if sv == cv {
            if let Some(mut vs) = shape_of_code(cv) {
                vs.name = nv;
                let mut il = 0usize;
                while il < ncodes {
                    let cl = CODES[il];
                    if sl == cl {
                        if let Some(mut ls) = shape_of_code(cl) {
                            assert!(vs.n <= maxw && ls.n <= maxw);
                            ls.name = nl;
                            let v = build(&mut a1, &vs);
                            let l = build(&mut a2, &ls);
                            let got = check_type_compatibility(&v, &l);
                            let spec = spec_compatible(&vs, &ls);
                            if want_c03 {
                                // C03: nothing the spec rejects is accepted
                                #[cfg(not(verif_mutant))]
                                assert!(!got || spec, "C03: variable usage accepted by check is allowed by AreTypesCompatible");
                                #[cfg(verif_mutant)]
                                assert!(!got || vs.n == ls.n, "mutant oracle: must be refuted");
                            } else {
                                // C04: nothing the spec allows is rejected
                                #[cfg(not(verif_mutant))]
                                assert!(!spec || got, "C04: variable usage allowed by AreTypesCompatible is accepted by check");
                                #[cfg(verif_mutant)]
                                assert!(!(nv == nl) || got, "mutant oracle: must be refuted");
                            }
                            kani::cover!(got && vs.n > ls.n, "accepted with a stricter (more non-null) variable type");
                            kani::cover!(!got && nv == nl && vs.n == ls.n, "rejected although names and depth agree");
                            kani::cover!(got && ls.n >= 2, "accepted with a location type of depth >= 2");
                            core::mem::forget(v);
                            core::mem::forget(l);
                        }
                    }
                    il += 1;
                }
            }
        }
        iv += 1;
    }
    core::mem::forget(a1);
    core::mem::forget(a2);
}

// codes < 3^(d+1) cover every nesting of depth <= d
#[kani::proof]
#[kani::unwind(8)]
fn c03_typecompat_sound_d2() {
    check(6, 2, true);
}
#[kani::proof]
#[kani::unwind(8)]
fn c04_typecompat_complete_d2() {
    check(6, 2, false);
}
#[kani::proof]
#[kani::unwind(13)]
fn c03_typecompat_sound_d3() {
    check(11, 3, true);
}
#[kani::proof]
#[kani::unwind(13)]
fn c04_typecompat_complete_d3() {
    check(11, 3, false);
}
#[kani::proof]
#[kani::unwind(21)]
fn c03_typecompat_sound_d4() {
    check(19, 4, true);
}
#[kani::proof]
#[kani::unwind(21)]
fn c04_typecompat_complete_d4() {
    check(19, 4, false);
}

// depth <= 3 in three slices of rows (run in parallel by the runner)
macro_rules! rows_harness {
    ($name:ident, $from:expr, $to:expr, $c03:expr) => {
        rows_harness!($name, $from, $to, $c03, 11, 3, 13);
    };
    ($name:ident, $from:expr, $to:expr, $c03:expr, $ncodes:expr, $maxw:expr, $unw:expr) => {
        #[kani::proof]
        #[kani::unwind($unw)]
        fn $name() {
            check_rows($from, $to, $ncodes, $maxw, $c03);
        }
    };
}
rows_harness!(c03_typecompat_sound_d3_r0, 0, 4, true);
rows_harness!(c03_typecompat_sound_d3_r1, 4, 8, true);
rows_harness!(c03_typecompat_sound_d3_r2, 8, 11, true);
rows_harness!(c04_typecompat_complete_d3_r0, 0, 4, false);
rows_harness!(c04_typecompat_complete_d3_r1, 4, 8, false);
rows_harness!(c04_typecompat_complete_d3_r2, 8, 11, false);

// depth <= 4 (19 x 19 nestings) in row slices (smaller slices for the deep rows): thorough tier
macro_rules! d4 {
    ($c03:ident, $c04:ident, $from:expr, $to:expr) => {
        rows_harness!($c03, $from, $to, true, 19, 4, 21);
        rows_harness!($c04, $from, $to, false, 19, 4, 21);
    };
}
d4!(c03_typecompat_sound_d4_s0, c04_typecompat_complete_d4_s0, 0, 4);
d4!(c03_typecompat_sound_d4_s1, c04_typecompat_complete_d4_s1, 4, 8);
d4!(c03_typecompat_sound_d4_s2, c04_typecompat_complete_d4_s2, 8, 10);
d4!(c03_typecompat_sound_d4_s3, c04_typecompat_complete_d4_s3, 10, 12);
d4!(c03_typecompat_sound_d4_s4, c04_typecompat_complete_d4_s4, 12, 14);
d4!(c03_typecompat_sound_d4_s5, c04_typecompat_complete_d4_s5, 14, 16);
d4!(c03_typecompat_sound_d4_s6, c04_typecompat_complete_d4_s6, 16, 18);
d4!(c03_typecompat_sound_d4_s7, c04_typecompat_complete_d4_s7, 18, 19);
