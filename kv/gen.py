#!/usr/bin/env python3
"""Encoder front end: /repo working tree -> scratch Kani workspace.

Regenerated on every run (never cached):
  1. copy Cargo.toml, Cargo.lock and crates/** (sources only) from /repo;
  2. substitute *library* models (std HashMap/HashSet, indexmap, lru, std::path) by rewriting the
     `use` lines listed in registry.REWRITES -- a rewrite that no longer matches raises EncodingStale;
  3. inject harness modules as child `mod` lines (so private items are reachable, no hook in /repo);
  4. add the verif_models crate as a path dependency of the crates that use a model.
Nothing inside any nitrogql function body is changed; sha256 of every touched file (as in /repo) is
recorded so the evidence can name exactly what was encoded.
"""
import hashlib
import os
import re
import shutil
import subprocess

REPO = os.environ.get("VERIF_REPO", "/repo")
VERIF = os.path.dirname(os.path.dirname(os.path.abspath(__file__)))


class EncodingStale(Exception):
    pass


def sha256_file(p):
    h = hashlib.sha256()
    with open(p, "rb") as f:
        h.update(f.read())
    return h.hexdigest()


def copy_repo(ws):
    os.makedirs(ws, exist_ok=True)
    for f in ("Cargo.toml", "Cargo.lock"):
        shutil.copy2(os.path.join(REPO, f), os.path.join(ws, f))

    def ignore(d, names):
        return [n for n in names if n in ("target", "node_modules", "snapshots", ".git")]

    shutil.copytree(os.path.join(REPO, "crates"), os.path.join(ws, "crates"), ignore=ignore, symlinks=True)
    os.makedirs(os.path.join(ws, ".cargo"), exist_ok=True)
    with open(os.path.join(ws, ".cargo", "config.toml"), "w") as f:
        f.write("[net]\noffline = true\n")


def add_models_crate(ws, crates_using):
    dst = os.path.join(ws, "crates", "verif_models")
    shutil.copytree(os.path.join(VERIF, "kv", "models"), dst, ignore=lambda d, n: [x for x in n if x == "target"])
    # workspace member
    p = os.path.join(ws, "Cargo.toml")
    s = open(p).read()
    if '"crates/verif_models"' not in s:
        s2 = s.replace("members = [", 'members = [\n  "crates/verif_models",', 1)
        if s2 == s:
            raise EncodingStale("workspace Cargo.toml: members list not found")
        open(p, "w").write(s2)
    for c in crates_using:
        cp = os.path.join(ws, "crates", c, "Cargo.toml")
        s = open(cp).read()
        if "verif_models" in s:
            continue
        m = re.search(r"^\[dependencies\]\s*$", s, re.M)
        if not m:
            raise EncodingStale(f"{cp}: no [dependencies] section")
        s = s[: m.end()] + '\nverif_models = { path = "../verif_models" }' + s[m.end():]
        open(cp, "w").write(s)


def apply_rewrites(ws, rewrites):
    """rewrites: list of (relpath, old, new, count) -- count None = at least once, all replaced."""
    done = []
    for rel, old, new, count in rewrites:
        p = os.path.join(ws, rel)
        if not os.path.exists(p):
            raise EncodingStale(f"{rel}: file missing")
        s = open(p).read()
        n = s.count(old)
        if n == 0 or (count is not None and n != count):
            raise EncodingStale(f"{rel}: expected {count or '>=1'} occurrence(s) of {old!r}, found {n}")
        open(p, "w").write(s.replace(old, new))
        done.append({"file": rel, "from": old, "to": new})
    return done


VEC_PRELUDE = (
    "#[allow(unused_imports)] use verif_models::bvec::Vec;\n"
    "#[allow(unused_macros)] macro_rules! vec { ($($t:tt)*) => { verif_models::bvec!($($t)*) }; }\n"
)


def apply_vec_model(ws, crate_dirs):
    """Library-model substitution for alloc::vec::Vec in whole crates: every source file gets an
    explicit import of the boxed fixed-capacity model (shadowing the prelude's Vec and vec!) and
    spelled-out `std::vec::` paths are redirected. Function bodies are not touched."""
    done = []
    for c in crate_dirs:
        root = os.path.join(ws, "crates", c, "src")
        if not os.path.isdir(root):
            raise EncodingStale(f"crates/{c}/src missing")
        for dp, _, fns in os.walk(root):
            for fn in fns:
                if not fn.endswith(".rs"):
                    continue
                p = os.path.join(dp, fn)
                lines = open(p).read().split("\n")
                i = 0
                while i < len(lines) and (lines[i].startswith("//!") or lines[i].startswith("#![") or lines[i].strip() == ""):
                    i += 1
                body = "\n".join(lines[i:]).replace("std::vec::IntoIter", "verif_models::bvec::IntoIter")
                open(p, "w").write("\n".join(lines[:i]) + ("\n" if i else "") + VEC_PRELUDE + body)
        done.append({"crate": c, "from": "alloc::vec::Vec (prelude) / vec!", "to": "verif_models::bvec::Vec / bvec!"})
    return done


def inject_harness(ws, rel, harness_abs, modname):
    p = os.path.join(ws, rel)
    if not os.path.exists(p):
        raise EncodingStale(f"{rel}: file missing (harness anchor)")
    with open(p, "a") as f:
        f.write(f'\n#[cfg(kani)]\n#[path = "{harness_abs}"]\nmod {modname};\n')


def encoded_file_record(rel):
    p = os.path.join(REPO, rel)
    return {"file": rel, "sha256": sha256_file(p) if os.path.exists(p) else None}


def repo_state():
    try:
        head = subprocess.run(["git", "-C", REPO, "rev-parse", "HEAD"], capture_output=True, text=True).stdout.strip()
        dirty = subprocess.run(["git", "-C", REPO, "status", "--porcelain", "--", "crates", "Cargo.toml", "Cargo.lock"],
                               capture_output=True, text=True).stdout.strip()
        return {"head": head, "dirty_files": [l[3:] for l in dirty.splitlines()]}
    except Exception as e:  # pragma: no cover
        return {"head": None, "error": str(e)}
