"""Registry of proof obligations: which harness decides which property, with which bounds,
which library-model substitutions are applied to the scratch copy, and what is assumed."""
from dataclasses import dataclass, field
from typing import List, Tuple


@dataclass
class H:
    name: str                 # harness function name (unique within package; no name is a substring of another)
    pkg: str                  # cargo package
    anchor: str               # repo file the harness module is appended to (as a child `mod`)
    hfile: str                # harness source, relative to kv/harness
    mod: str                  # module name used for the injection
    funcs: List[str]          # real functions symbolically executed
    bounds: str               # the bound, in words
    files: List[str] = field(default_factory=list)   # repo files encoded (sha256 goes in evidence)
    tiers: Tuple[str, ...] = ("quick", "thorough")
    timeout: int = 600
    mem_gb: int = 8
    extra_args: Tuple[str, ...] = ()
    expect: str = "pass"      # "fail" = harness for an open known finding
    has_mutant: bool = True   # oracle-mutant twin exists (cfg verif_mutant) and must be refuted
    replay_release: bool = True

    def __post_init__(self):
        if not self.files:
            self.files = [self.anchor]


# ---------------------------------------------------------------- library-model substitutions
# (relpath, old, new, expected count or None)
REWRITE_GROUPS = {
    "lru": {
        "crates": ["sourcemap-writer"],
        "rewrites": [("crates/sourcemap-writer/src/source_writer/name_mapper.rs",
                      "use lru::LruCache;", "use verif_models::lrumodel::LruCache;", 1)],
    },
}

REWRITE_GROUPS["path_utils"] = {
    "crates": ["utils"],
    "rewrites": [("crates/utils/src/relative_path.rs", "use std::path::{Component, Path, PathBuf};",
                  "use verif_models::pathmodel::{Component, Path, PathBuf};\n"
                  "#[allow(unused_imports)] use verif_models::fvec::Vec;\n"
                  "#[allow(unused_macros)] macro_rules! vec { () => { Vec::new() }; }", 1)],
}

REWRITE_GROUPS["indexmap"] = {
    "crates": ["semantics"],
    "rewrites": [("crates/semantics/src/schema_extension_resolver/extension_list.rs", "use indexmap::IndexMap;",
                  "use verif_models::vmap::IndexMap;", 1)],
}

REWRITE_GROUPS["loader_maps"] = {
    "crates": ["graphql-loader"],
    "rewrites": [("crates/graphql-loader/src/tasks.rs", "use std::{\n    collections::HashMap,\n    path::{Path, PathBuf},\n};",
                  "use std::path::{Path, PathBuf};\nuse verif_models::vmap::HashMap;", 1)],
}

SW = "crates/sourcemap-writer/src/"

PROPS = {}

PROPS["C06"] = {
    "rewrite_groups": [],
    "models_for": ["sourcemap-writer"],
    "assumptions": [
        "String used as a write-only output buffer is replaced by the sink model (kv/models/src/sink.rs): "
        "String::push / String::from(char) append to a fixed array that the oracle reads; contract: bytes appended, in order",
        "thorough tier only: <CharSearcher as Searcher>::next_match (behind str::split) is stubbed by a plain scan that reads the searcher through a mirror struct; char_searcher_layout_witness proves the mirror right on concrete searchers in the same build; SourceWriter's indent string is installed directly instead of through str::repeat",
        "Kani/CBMC/cadical are sound; rustc MIR is the semantics of the source",
    ],
    "outside": "SourceWriter::write_for (names table, add_entry call sites), SourceWriter::write beyond two writes of 2 characters (thorough tier only), every write_for call site in the printers, print_source_map_json, "
               "and the file-index remapping in cli/src/generate.rs (source index -1 for imported fragments) are not encoded",
    "harnesses": [
        H("vlq_roundtrip_full", "sourcemap-writer", SW + "base64_vlq/mod.rs", "sourcemap_writer/vlq_h.rs", "verif_vlq",
          ["base64_vlq::base64_vlq"], "n: every isize (64 bit); loop unwound 15 > 13 digits, unwinding assertion on",
          timeout=300, mem_gb=6),
        H("vlq_no_panic_full_range", "sourcemap-writer", SW + "base64_vlq/mod.rs", "sourcemap_writer/vlq_h.rs", "verif_vlq",
          ["base64_vlq::base64_vlq"], "n: every isize; no panic/overflow/out-of-bounds (Kani built-in checks), 1..=13 digits",
          timeout=300, mem_gb=6),
        H("mapping_delta_k2", "sourcemap-writer", SW + "source_writer/mapping_writer.rs", "sourcemap_writer/mapping_h.rs", "verif_mapping",
          ["MappingWriter::new", "MappingWriter::add_entry", "MappingWriter::into_buffer"],
          "every sequence of 2 add_entry calls; columns, original positions, source and name indices symbolic in [0, 2^62); generated line non-decreasing, advancing by 0..3 per entry",
          timeout=600, mem_gb=8),
        H("mapping_delta_k3", "sourcemap-writer", SW + "source_writer/mapping_writer.rs", "sourcemap_writer/mapping_h.rs", "verif_mapping",
          ["MappingWriter::new", "MappingWriter::add_entry", "MappingWriter::into_buffer"],
          "every sequence of 3 add_entry calls; columns, original positions, source and name indices symbolic in [0, 2^62); generated line non-decreasing, advancing by 0..3 per entry",
          timeout=900, mem_gb=10),
        H("mapping_delta_k4", "sourcemap-writer", SW + "source_writer/mapping_writer.rs", "sourcemap_writer/mapping_h.rs", "verif_mapping",
          ["MappingWriter::new", "MappingWriter::add_entry", "MappingWriter::into_buffer"],
          "every sequence of 4 add_entry calls; columns, original positions, source and name indices symbolic in [0, 2^62); generated line non-decreasing, advancing by 0..3 per entry",
          timeout=900, mem_gb=10),
        H("source_writer_cursor_two_writes", "sourcemap-writer", SW + "source_writer.rs", "sourcemap_writer/source_writer_h.rs", "verif_source_writer",
          ["SourceWriter::new", "SourceWriter::write", "SourceWriter::flush_pending_indent", "utf16_len"],
          "two write() calls, each text 0..2 chars from {a, LF, U+1F600}, with or without a 2-space indentation level; CharSearcher::next_match stubbed (layout witness harness)",
          tiers=("thorough",), timeout=5400, mem_gb=32),
        H("char_searcher_layout_witness", "sourcemap-writer", SW + "source_writer.rs", "sourcemap_writer/source_writer_h.rs", "verif_source_writer",
          ["(stub validation) core::str::pattern::CharSearcher::next_match vs its stub, via a mirror struct"], "concrete searchers; real next_match and stub compared step by step",
          tiers=("thorough",), timeout=1800, mem_gb=10, has_mutant=False),
        H("utf16_len_3chars", "sourcemap-writer", SW + "source_writer/utf16_len.rs", "sourcemap_writer/utf16_h.rs", "verif_utf16",
          ["utf16_len"], "strings of 0..3 arbitrary Unicode scalar values (all 0x110000-0x800 of them per position)",
          timeout=600, mem_gb=8),
    ],
}

RP = "crates/utils/src/relative_path.rs"
_RPF = ["relative_path", "normalize_path", "resolve_relative_path"]
PROPS["C20"] = {
    "rewrite_groups": ["path_utils"],
    "assumptions": [
        "std::path is replaced by the component-list model kv/models/src/pathmodel.rs (validated natively against the real std::path on every component list up to length 5 over {a, bb, ., ..}, rooted and not, for components/push/pop): a path is what Path::components() yields; byte-level parsing of path strings is not modelled",
        "preconditions from the statement: absolute inputs that never climb above the root; A and B name files (last component is a name), B is not one of the directories containing A",
        "Kani/CBMC/cadical are sound; rustc MIR is the semantics of the source",
    ],
    "outside": "how a string splits into components (separators, //, trailing /, non-UTF-8, Windows prefixes); the consumers in cli/src/generate.rs (path_to_ts, import specifiers, `sources`) and print_source_map_json",
    "harnesses": [
        H("normalize_spec_n5", "nitrogql-utils", RP, "utils/relpath_h.rs", "verif_relpath", ["normalize_path"],
          "/ + up to 5 symbolic components from {x, y, ., ..}", timeout=900, mem_gb=10),
        H("resolve_spec_4x4", "nitrogql-utils", RP, "utils/relpath_h.rs", "verif_relpath", ["resolve_relative_path", "normalize_path"],
          "a: / + up to 4 components; relative path: up to 4 components from {x, y, ., ..}", timeout=900, mem_gb=10),
        H("inverse_law_3x3", "nitrogql-utils", RP, "utils/relpath_h.rs", "verif_relpath", _RPF,
          "a, b: / + up to 3 symbolic components each from {x, y, ., ..}", timeout=1500, mem_gb=16),
        H("relpath_no_panic_unconstrained_2x2", "nitrogql-utils", RP, "utils/relpath_h.rs", "verif_relpath", _RPF,
          "a, b: / + up to 2 symbolic components, NO no-climb precondition; panic freedom only", timeout=1200, mem_gb=12, has_mutant=False),
        H("inverse_law_4x4", "nitrogql-utils", RP, "utils/relpath_h.rs", "verif_relpath", _RPF,
          "a, b: / + up to 4 symbolic components each from {x, y, ., ..}", tiers=("thorough",), timeout=7200, mem_gb=30),
    ],
}

SER = "crates/semantics/src/schema_extension_resolver/"
VEC_CORE = ["ast", "semantics", "error", "type-system", "utils"]
VEC_NOTE = ("alloc::vec::Vec is replaced, in the crates {crates}, by the boxed fixed-capacity model kv/models/src/bvec.rs "
            "(capacity 8, Deref<[T]>, same sequence contract; validated natively against std Vec on >50000 operation scripts incl. drop counts); "
            "done by adding an import line to each file, no function body is edited")
PROPS["C11"] = {
    "rewrite_groups": ["indexmap"],
    "vec_model": VEC_CORE,
    "assumptions": [
        VEC_NOTE.format(crates=", ".join(VEC_CORE)),"Kani/CBMC/cadical are sound; rustc MIR is the semantics of the source"],
    "outside": "file concatenation in cli/src/main.rs",
    "harnesses": [
        H("extlist_script_n2", "nitrogql-semantics", SER + "extension_list.rs", "semantics/extlist_h.rs", "verif_extlist",
          ["ExtensionList::new", "ExtensionList::set_original", "ExtensionList::add_extension", "ExtensionList::into_original_and_extensions"],
          "every script of 2 operations, each symbolically set_original/add_extension, name in {A, B, unnamed}, position line<3 col<2; instantiation ExtensionList<Orig, Ext> with small Copy item types",
          timeout=900, mem_gb=12),
        H("merge_scalar_concat", "nitrogql-semantics", SER + "mod.rs", "semantics/merge_h.rs", "verif_merge", ["merge_scalar_definition"],
          "original + 0..2 extensions, each list 0..2 entries", timeout=900, mem_gb=12),
        H("merge_union_concat", "nitrogql-semantics", SER + "mod.rs", "semantics/merge_h.rs", "verif_merge", ["merge_union_definition", "unzip2"],
          "original + 0..2 extensions, each list 0..2 entries", timeout=900, mem_gb=12),
    ],
}

CK = "crates/checker/src/"
_TC_OUT = ("everything else in the operation checker: field existence, leaf/composite selection rules, argument and literal typing "
           "(check_arguments, check_value, is_value_compatible_type_def), directive rules, fragment applicability, duplicate-name scans, the default-value "
           "allowance of IsVariableUsageAllowed at the call site, and the generate-is-gated-on-check consequence")
for _pid, _pre in (("C03", "c03_typecompat_sound"), ("C04", "c04_typecompat_complete")):
    PROPS[_pid] = {
        "rewrite_groups": [],
        "assumptions": ["types are well-formed GraphQL types (no `T!!`)", "Kani/CBMC/cadical are sound; rustc MIR is the semantics of the source"],
        "outside": _TC_OUT,
        "harnesses": [
            # depth <= 2 in ONE harness: cheap (fits even when the kernel is rewritten as a loop, seed c03c)
            H(_pre + "_d2", "nitrogql-checker", CK + "common.rs", "checker/typecompat_h.rs", "verif_typecompat", ["common::check_type_compatibility"],
              "variable type and location type: the 6 well-formed nestings with at most 2 wrappers (T, T!, [T], [T]!, [T!], [[T]] minus ill-formed; CODES[0..6]), symbolic selectors, names symbolic over {A, B}",
              timeout=900, mem_gb=10),
        ] + [
            H(_pre + "_d3_r%d" % _r, "nitrogql-checker", CK + "common.rs", "checker/typecompat_h.rs", "verif_typecompat", ["common::check_type_compatibility"],
              "variable type: rows %s of the 11 well-formed wrapper nestings of depth <= 3; location type: all 11; chosen by symbolic selectors, names symbolic over {A, B}; instantiation S = interned-name type" % _rows,
              timeout=1500, mem_gb=10)
            for _r, _rows in ((0, "0-3"), (1, "4-7"), (2, "8-10"))
        ] + [
            H(_pre + "_d4_s%d" % _r, "nitrogql-checker", CK + "common.rs", "checker/typecompat_h.rs", "verif_typecompat", ["common::check_type_compatibility"],
              "variable type: rows %s of the 19 well-formed wrapper nestings of depth <= 4; location type: all 19; symbolic selectors, names symbolic over {A, B}" % _rows,
              tiers=("thorough",), timeout=3600, mem_gb=14)
            for _r, _rows in ((0, "0-3"), (1, "4-7"), (2, "8-9"), (3, "10-11"), (4, "12-13"), (5, "14-15"), (6, "16-17"), (7, "18"))
        ],
    }

PR = "crates/printer/src/"
SINK_NOTE = ("String used as a write-only output buffer is replaced by the sink model (kv/models/src/sink.rs): String::push / push_str / "
             "str::repeat(1-byte pattern) append to a fixed array that the oracle reads; contract: bytes appended, in order")
PROPS["C16"] = {
    "rewrite_groups": [],
    "models_for": ["printer", "sourcemap-writer"],
    "assumptions": [
        SINK_NOTE,
        "str::find::<char> is stubbed by a plain scan with the same contract (kv/harness/printer/strlex.rs str_find_char); the crate is compiled with -Zcrate-attr=feature(pattern) so that the stub can name the Pattern bound",
        "alloc::fmt::format is stubbed to return the text `\\u{1}` and the only control character in the input alphabet is U+0001 (the one value for which that is what format! produces)",
        "input alphabets: see bounds; strings are valid UTF-8 built with char::encode_utf8",
        "thorough tier, JsStringWriter: <CharSearcher as Searcher>::next_match (behind str::split) is stubbed by a plain scan that reads the searcher through a mirror struct (validated by char_searcher_layout_witness in C06's thorough tier); the writer's own empty indent String is swapped for an explicitly empty one before drop (Kani String::new() artefact)",
        "Kani/CBMC/cadical are sound; rustc MIR is the semantics of the source",
    ],
    "outside": "every GraphQLPrinter impl in ast.rs/base.rs/schema.rs (types, fields, arguments, directives, dropped variable defaults), remove_builtins, plugin transforms, re-parsing with nitrogql's own parser",
    "harnesses": [
        H("print_string_single_line_n2_outside_known", "nitrogql-printer", PR + "graphql_printer/utils.rs", "printer/print_string_h.rs", "verif_print_string",
          ["graphql_printer::utils::print_string"], "strings of 0..2 chars from {a, CR, U+0001, e-acute, U+1F600, /} (no LF: single-line path; no double quote, no backslash: outside the recorded finding)",
          timeout=1800, mem_gb=20),
        H("print_string_block_n2_outside_known", "nitrogql-printer", PR + "graphql_printer/utils.rs", "printer/print_string_h.rs", "verif_print_string",
          ["graphql_printer::utils::print_string"], "multi-line strings of 1..2 chars from {LF, \", \\, a, space} containing LF and NOT ending in \" or \\; lexical form only",
          timeout=2400, mem_gb=20),
        H("print_string_block_n2_known_trailing_quote_backslash", "nitrogql-printer", PR + "graphql_printer/utils.rs", "printer/print_string_h.rs", "verif_print_string",
          ["graphql_printer::utils::print_string"], "multi-line strings of 2 chars from the same alphabet ENDING in \" or \\ (the recorded finding)",
          timeout=2400, mem_gb=20, expect="fail", has_mutant=False),
        H("print_string_block_n3_outside_known", "nitrogql-printer", PR + "graphql_printer/utils.rs", "printer/print_string_h.rs", "verif_print_string",
          ["graphql_printer::utils::print_string"], "multi-line strings of 1..3 chars from {LF, \", \\, a, space} containing LF and NOT ending in \" or \\; lexical form only",
          tiers=("thorough",), timeout=3600, mem_gb=24),
        H("print_string_block_n3_known_trailing_quote_backslash", "nitrogql-printer", PR + "graphql_printer/utils.rs", "printer/print_string_h.rs", "verif_print_string",
          ["graphql_printer::utils::print_string"], "multi-line strings of 2..3 chars from the same alphabet ENDING in \" or \\ (the recorded finding)",
          tiers=("thorough",), timeout=3600, mem_gb=24, expect="fail", has_mutant=False),
        H("js_string_one_write_n2", "sourcemap-writer", SW + "js_string_writer.rs", "sourcemap_writer/js_string_h.rs", "verif_js_string",
          ["JsStringWriter::new", "JsStringWriter::write", "Drop for JsStringWriter"], "text of 0..2 chars from {\\, `, $, {, }, LF, a}, one write() call; CharSearcher::next_match stubbed",
          tiers=("thorough",), timeout=5400, mem_gb=32),
        H("print_string_control_chars_real_format", "nitrogql-printer", PR + "graphql_printer/utils.rs", "printer/print_string_h.rs", "verif_print_string",
          ["graphql_printer::utils::print_string"], "one character from {U+000B, U+001F, U+007F, a}; format! is NOT stubbed (the real core::fmt runs)",
          tiers=("thorough",), timeout=3600, mem_gb=20),
        H("print_string_single_line_n2_known_quote_backslash", "nitrogql-printer", PR + "graphql_printer/utils.rs", "printer/print_string_h.rs", "verif_print_string",
          ["graphql_printer::utils::print_string"], "strings of 1..2 chars from {\", \\, a, CR, U+0001, e-acute, U+1F600, /} containing at least one double quote or backslash (the recorded finding)",
          timeout=1800, mem_gb=20, expect="fail", has_mutant=False),
    ],
}

PROPS["C09"] = {
    "rewrite_groups": [],
    "assumptions": ["types are well-formed GraphQL types (no `T!!`)",
                    "the map_name callback is the harness's (returns a marker type); Box targets of the input type live in a typed arena built by the harness",
                    "Kani/CBMC/cadical are sound; rustc MIR is the semantics of the source"],
    "outside": "get_type_for_variable_definitions (optional/undefined handling, ts_intersection), the __OperationInput namespace declarations (schema_type_printer print_type impls write text), ScalarTypeConfig::get_type, variable default values, text printing",
    "harnesses": [
        H("c09_ts_of_type_s0", "nitrogql-printer", PR + "ts_types/type_to_ts_type.rs", "printer/ts_of_type_h.rs", "verif_ts_of_type",
          ["ts_types::type_to_ts_type::get_ts_type_of_type", "get_ts_type_of_type_impl"],
          "well-formed wrapper nestings #0-4 (depth <= 2: T, [T], T!, [[T]], [T!]) of the 19 nestings of depth <= 4, chosen by a symbolic selector", timeout=900, mem_gb=10),
        H("c09_ts_of_type_s1", "nitrogql-printer", PR + "ts_types/type_to_ts_type.rs", "printer/ts_of_type_h.rs", "verif_ts_of_type",
          ["ts_types::type_to_ts_type::get_ts_type_of_type", "get_ts_type_of_type_impl"],
          "well-formed wrapper nestings #5-9 (depth 2-3) of the 19 nestings of depth <= 4, chosen by a symbolic selector", timeout=900, mem_gb=10),
        H("c09_ts_of_type_s2", "nitrogql-printer", PR + "ts_types/type_to_ts_type.rs", "printer/ts_of_type_h.rs", "verif_ts_of_type",
          ["ts_types::type_to_ts_type::get_ts_type_of_type", "get_ts_type_of_type_impl"],
          "well-formed wrapper nestings #10-14 (depth 3-4) of the 19 nestings of depth <= 4, chosen by a symbolic selector", timeout=900, mem_gb=10, tiers=("thorough",)),
        H("c09_ts_of_type_s3", "nitrogql-printer", PR + "ts_types/type_to_ts_type.rs", "printer/ts_of_type_h.rs", "verif_ts_of_type",
          ["ts_types::type_to_ts_type::get_ts_type_of_type", "get_ts_type_of_type_impl"],
          "well-formed wrapper nestings #15-18 (depth 4) of the 19 nestings of depth <= 4, chosen by a symbolic selector", timeout=900, mem_gb=10, tiers=("thorough",)),
    ],
}
UNCLAIMED_C16 = PROPS["C16"]  # measured: std str search (find/split/lines -> CharSearcher/memchr) does not fit; see DESIGN appendix

PROPS["C19"] = {
    "rewrite_groups": ["loader_maps"],
    "assumptions": ["std::collections::HashMap in graphql-loader/src/tasks.rs is replaced by the Vec-backed model kv/models/src/vmap.rs (finite function K -> V; validated natively against std HashMap on >60000 scripts)",
                    "tasks are created with Task::new on an empty path; register_file (parser, import resolution) is never executed",
                    "Kani/CBMC/cadical are sound; rustc MIR is the semantics of the source"],
    "outside": "loader.rs (parse, import resolution, get_required_files, emit_js), main.rs ABI wrappers / thread-locals / RESULT buffer, the manual ownership of source buffers in register_file + Drop for Task, the TypeScript side; equality of emitted modules between fresh and long-lived tasks",
    "harnesses": [
        H("tasks_history_n3", "graphql-loader", "crates/graphql-loader/src/tasks.rs", "loader/tasks_h.rs", "verif_tasks",
          ["Tasks::new", "Tasks::add_task", "Tasks::get_task", "Tasks::get_task_mut", "Tasks::remove_task", "Task::new"],
          "every history of 3 calls, each symbolically add/get/get_mut/remove with a symbolic id in 0..=6 (live, freed and never-issued ids)", timeout=900, mem_gb=12),
    ],
}

PROPS["C08"] = {
    "rewrite_groups": [],
    "assumptions": ["input strings are valid UTF-8 built with char::encode_utf8 from arbitrary Unicode scalar values",
                    "Kani/CBMC/cadical are sound; rustc MIR is the semantics of the source"],
    "outside": "the pest grammar and all builders, import/extension resolution, the checker, the printers' expect() sites, config parsing, diagnostic rendering, the loader ABI - i.e. every place the panics quoted in the property text live; only leaf text/integer kernels are decided",
    "harnesses": [
        H("chars_skip_chars_any_text", "nitrogql-utils", "crates/utils/src/chars.rs", "utils/chars_h.rs", "verif_chars", ["skip_chars"],
          "text of 0..3 arbitrary Unicode scalar values, k in 0..=5", timeout=900, mem_gb=10),
        H("chars_first_non_space_any_text", "nitrogql-utils", "crates/utils/src/chars.rs", "utils/chars_h.rs", "verif_chars", ["first_non_space_byte_index"],
          "text of 0..3 arbitrary Unicode scalar values", timeout=900, mem_gb=10),
        H("chars_n5_skip_chars", "nitrogql-utils", "crates/utils/src/chars.rs", "utils/chars_h.rs", "verif_chars", ["skip_chars"],
          "text of 0..5 arbitrary Unicode scalar values, k in 0..=7; also: the result is a suffix of the input (same end address)", tiers=("thorough",), timeout=1800, mem_gb=16),
        H("chars_n5_first_non_space", "nitrogql-utils", "crates/utils/src/chars.rs", "utils/chars_h.rs", "verif_chars", ["first_non_space_byte_index"],
          "text of 0..5 arbitrary Unicode scalar values", tiers=("thorough",), timeout=1800, mem_gb=16),
    ],
}

# C11: every harness written for it ran out of memory or time (see DESIGN.md appendix): the merge_*
# functions and ExtensionList are iterator-adaptor chains over heap structs with String keys, which
# CBMC cannot convert within 40 GB even at 1-element bounds. Kept for the record, not claimed.
UNCLAIMED = {"C11": PROPS.pop("C11")}
# C09 / C19: harnesses written, measured, do not fit (DESIGN.md appendix); kept for the record.
UNCLAIMED["C09"] = PROPS.pop("C09")
UNCLAIMED["C19"] = PROPS.pop("C19")

