"""Registry of proof obligations: which harness decides which property, with which bounds,
which library-model substitutions are applied to the scratch copy, and what is assumed."""
from dataclasses import dataclass, field
from typing import List, Tuple


@dataclass
class H:
    name: str                 # harness function name (unique within package; no name is a substring of another)
    pkg: str                  # cargo package
    anchor: str               # repo file the harness module is appended to (as a child `mod`)
    hfile: str                # harness source, relative to kv/harness
    mod: str                  # module name used for the injection
    funcs: List[str]          # real functions symbolically executed
    bounds: str               # the bound, in words
    files: List[str] = field(default_factory=list)   # repo files encoded (sha256 goes in evidence)
    tiers: Tuple[str, ...] = ("quick", "thorough")
    timeout: int = 600
    mem_gb: int = 8
    extra_args: Tuple[str, ...] = ()
    expect: str = "pass"      # "fail" = harness for an open known finding
    has_mutant: bool = True   # oracle-mutant twin exists (cfg verif_mutant) and must be refuted
    replay_release: bool = True

    def __post_init__(self):
        if not self.files:
            self.files = [self.anchor]


# ---------------------------------------------------------------- library-model substitutions
# (relpath, old, new, expected count or None)
REWRITE_GROUPS = {
    "lru": {
        "crates": ["sourcemap-writer"],
        "rewrites": [("crates/sourcemap-writer/src/source_writer/name_mapper.rs",
                      "use lru::LruCache;", "use verif_models::lrumodel::LruCache;", 1)],
    },
}

REWRITE_GROUPS["path_utils"] = {
    "crates": ["utils"],
    "rewrites": [("crates/utils/src/relative_path.rs", "use std::path::{Component, Path, PathBuf};",
                  "use verif_models::pathmodel::{Component, Path, PathBuf};\n"
                  "#[allow(unused_imports)] use verif_models::fvec::Vec;\n"
                  "#[allow(unused_macros)] macro_rules! vec { () => { Vec::new() }; }", 1)],
}

REWRITE_GROUPS["indexmap"] = {
    "crates": ["semantics"],
    "rewrites": [("crates/semantics/src/schema_extension_resolver/extension_list.rs", "use indexmap::IndexMap;",
                  "use verif_models::vmap::IndexMap;", 1)],
}

SW = "crates/sourcemap-writer/src/"

PROPS = {}

PROPS["C06"] = {
    "rewrite_groups": [],
    "models_for": ["sourcemap-writer"],
    "assumptions": [
        "String used as a write-only output buffer is replaced by the sink model (kv/models/src/sink.rs): "
        "String::push / String::from(char) append to a fixed array that the oracle reads; contract: bytes appended, in order",
        "Kani/CBMC/cadical are sound; rustc MIR is the semantics of the source",
    ],
    "outside": "SourceWriter::write/write_for, every write_for call site in the printers, print_source_map_json, "
               "and the file-index remapping in cli/src/generate.rs (source index -1 for imported fragments) are not encoded",
    "harnesses": [
        H("vlq_roundtrip_full", "sourcemap-writer", SW + "base64_vlq/mod.rs", "sourcemap_writer/vlq_h.rs", "verif_vlq",
          ["base64_vlq::base64_vlq"], "n: every isize (64 bit); loop unwound 15 > 13 digits, unwinding assertion on",
          timeout=300, mem_gb=6),
        H("mapping_delta_k2", "sourcemap-writer", SW + "source_writer/mapping_writer.rs", "sourcemap_writer/mapping_h.rs", "verif_mapping",
          ["MappingWriter::new", "MappingWriter::add_entry", "MappingWriter::into_buffer"],
          "every sequence of 2 add_entry calls; all positions/indices symbolic in [0, 2^62); generated line non-decreasing",
          timeout=600, mem_gb=8),
        H("mapping_delta_k3", "sourcemap-writer", SW + "source_writer/mapping_writer.rs", "sourcemap_writer/mapping_h.rs", "verif_mapping",
          ["MappingWriter::new", "MappingWriter::add_entry", "MappingWriter::into_buffer"],
          "every sequence of 3 add_entry calls; all positions/indices symbolic in [0, 2^62); generated line non-decreasing",
          timeout=900, mem_gb=10),
        H("mapping_delta_k4", "sourcemap-writer", SW + "source_writer/mapping_writer.rs", "sourcemap_writer/mapping_h.rs", "verif_mapping",
          ["MappingWriter::new", "MappingWriter::add_entry", "MappingWriter::into_buffer"],
          "every sequence of 4 add_entry calls; all positions/indices symbolic in [0, 2^62); generated line non-decreasing",
          timeout=900, mem_gb=10),
        H("utf16_len_3chars", "sourcemap-writer", SW + "source_writer/utf16_len.rs", "sourcemap_writer/utf16_h.rs", "verif_utf16",
          ["utf16_len"], "strings of 0..3 arbitrary Unicode scalar values (all 0x110000-0x800 of them per position)",
          timeout=600, mem_gb=8),
    ],
}

RP = "crates/utils/src/relative_path.rs"
_RPF = ["relative_path", "normalize_path", "resolve_relative_path"]
PROPS["C20"] = {
    "rewrite_groups": ["path_utils"],
    "assumptions": [
        "std::path is replaced by the component-list model kv/models/src/pathmodel.rs (validated natively against the real std::path on every component list up to length 5 over {a, bb, ., ..}, rooted and not, for components/push/pop): a path is what Path::components() yields; byte-level parsing of path strings is not modelled",
        "preconditions from the statement: absolute inputs that never climb above the root; A and B name files (last component is a name), B is not one of the directories containing A",
        "Kani/CBMC/cadical are sound; rustc MIR is the semantics of the source",
    ],
    "outside": "how a string splits into components (separators, //, trailing /, non-UTF-8, Windows prefixes); the consumers in cli/src/generate.rs (path_to_ts, import specifiers, `sources`) and print_source_map_json",
    "harnesses": [
        H("normalize_spec_n3", "nitrogql-utils", RP, "utils/relpath_h.rs", "verif_relpath", ["normalize_path"],
          "/ + up to 3 symbolic components from {x, y, ., ..}", timeout=600, mem_gb=8),
        H("inverse_law_2x2", "nitrogql-utils", RP, "utils/relpath_h.rs", "verif_relpath", _RPF,
          "a, b: / + up to 2 symbolic components each from {x, y, ., ..}", timeout=900, mem_gb=12),
        H("resolve_spec_3x3", "nitrogql-utils", RP, "utils/relpath_h.rs", "verif_relpath", ["resolve_relative_path", "normalize_path"],
          "a: / + up to 3 components; relative path: up to 3 components from {x, y, ., ..}", timeout=900, mem_gb=12),
        H("normalize_spec_n5", "nitrogql-utils", RP, "utils/relpath_h.rs", "verif_relpath", ["normalize_path"],
          "/ + up to 5 symbolic components from {x, y, ., ..}", tiers=("thorough",), timeout=2400, mem_gb=12),
        H("inverse_law_3x3", "nitrogql-utils", RP, "utils/relpath_h.rs", "verif_relpath", _RPF,
          "a, b: / + up to 3 symbolic components each from {x, y, ., ..}", tiers=("thorough",), timeout=3000, mem_gb=20),
        H("resolve_spec_4x4", "nitrogql-utils", RP, "utils/relpath_h.rs", "verif_relpath", ["resolve_relative_path", "normalize_path"],
          "a: / + up to 4 components; relative path: up to 4 components", tiers=("thorough",), timeout=2400, mem_gb=12),
        H("relpath_no_panic_unconstrained_2x2", "nitrogql-utils", RP, "utils/relpath_h.rs", "verif_relpath", _RPF,
          "a, b: / + up to 2 symbolic components, NO no-climb precondition; panic freedom only", timeout=900, mem_gb=12, has_mutant=False),
    ],
}

SER = "crates/semantics/src/schema_extension_resolver/"
VEC_CORE = ["ast", "semantics", "error", "type-system", "utils"]
VEC_NOTE = ("alloc::vec::Vec is replaced, in the crates {crates}, by the boxed fixed-capacity model kv/models/src/bvec.rs "
            "(capacity 8, Deref<[T]>, same sequence contract; validated natively against std Vec on >50000 operation scripts incl. drop counts); "
            "done by adding an import line to each file, no function body is edited")
PROPS["C11"] = {
    "rewrite_groups": ["indexmap"],
    "vec_model": VEC_CORE,
    "assumptions": [
        VEC_NOTE.format(crates=", ".join(VEC_CORE)),"Kani/CBMC/cadical are sound; rustc MIR is the semantics of the source"],
    "outside": "file concatenation in cli/src/main.rs",
    "harnesses": [
        H("extlist_script_n2", "nitrogql-semantics", SER + "extension_list.rs", "semantics/extlist_h.rs", "verif_extlist",
          ["ExtensionList::new", "ExtensionList::set_original", "ExtensionList::add_extension", "ExtensionList::into_original_and_extensions"],
          "every script of 2 operations, each symbolically set_original/add_extension, name in {A, B, unnamed}, position line<3 col<2; instantiation ExtensionList<Orig, Ext> with small Copy item types",
          timeout=900, mem_gb=12),
        H("merge_scalar_concat", "nitrogql-semantics", SER + "mod.rs", "semantics/merge_h.rs", "verif_merge", ["merge_scalar_definition"],
          "original + 0..2 extensions, each list 0..2 entries", timeout=900, mem_gb=12),
        H("merge_union_concat", "nitrogql-semantics", SER + "mod.rs", "semantics/merge_h.rs", "verif_merge", ["merge_union_definition", "unzip2"],
          "original + 0..2 extensions, each list 0..2 entries", timeout=900, mem_gb=12),
    ],
}

CK = "crates/checker/src/"
_TC_OUT = ("everything else in the operation checker: field existence, leaf/composite selection rules, argument and literal typing "
           "(check_arguments, check_value, is_value_compatible_type_def), directive rules, fragment applicability, duplicate-name scans, the default-value "
           "allowance of IsVariableUsageAllowed at the call site, and the generate-is-gated-on-check consequence")
for _pid, _pre in (("C03", "c03_typecompat_sound"), ("C04", "c04_typecompat_complete")):
    PROPS[_pid] = {
        "rewrite_groups": [],
        "assumptions": ["types are well-formed GraphQL types (no `T!!`)", "Kani/CBMC/cadical are sound; rustc MIR is the semantics of the source"],
        "outside": _TC_OUT,
        "harnesses": [
            H(_pre + "_d2", "nitrogql-checker", CK + "common.rs", "checker/typecompat_h.rs", "verif_typecompat", ["common::check_type_compatibility"],
              "variable type and location type: all 6x6 well-formed wrapper nestings of depth <= 2 (symbolic selector), names symbolic over {A, B}; instantiation S = interned-name type", timeout=900, mem_gb=10),
            H(_pre + "_d3", "nitrogql-checker", CK + "common.rs", "checker/typecompat_h.rs", "verif_typecompat", ["common::check_type_compatibility"],
              "variable type and location type: every wrapper nesting of depth <= 3 over names {A, B} (symbolic)", tiers=("thorough",), timeout=3600, mem_gb=16),
        ],
    }

# C11: every harness written for it ran out of memory or time (see DESIGN.md appendix): the merge_*
# functions and ExtensionList are iterator-adaptor chains over heap structs with String keys, which
# CBMC cannot convert within 40 GB even at 1-element bounds. Kept for the record, not claimed.
UNCLAIMED = {"C11": PROPS.pop("C11")}
