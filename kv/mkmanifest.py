#!/usr/bin/env python3
"""Regenerates /verif/MANIFEST.json from kv/registry.py (claimed checks) and kv/claims.py (texts)."""
import json
import os
import sys

VERIF = os.path.dirname(os.path.dirname(os.path.abspath(__file__)))
sys.path.insert(0, os.path.join(VERIF, "kv"))
import claims  # noqa: E402
import registry  # noqa: E402

ALL = [f"C{n:02d}" for n in range(1, 21)]


def main():
    checks = []
    for pid in ALL:
        if pid not in registry.PROPS:
            continue
        c = claims.CLAIMS[pid]
        spec = registry.PROPS[pid]
        entry = {
            "property_id": pid,
            "quick_cmd": f"bin/check {pid} --tier quick",
            "thorough_cmd": f"bin/check {pid} --tier thorough",
            "evidence_file": f"evidence/{pid}.json",
            "replay_cmd_template": f"bin/check {pid} --replay {{path}}",
            "engine": "kani-cbmc",
            "level_claimed": {"category": "model_checking", "text": c["text"], "design_ref": c["design_ref"]},
            "level_note": c["note"] + " Outside the claim: " + spec["outside"],
            "technique": c.get("technique", "bounded model checking of the compiled Rust (Kani 0.68 -> CBMC 6.11 -> SAT): symbolic inputs, differential oracle, unwinding assertions on, counterexamples replayed natively"),
        }
        checks.append(entry)
    na = [{"property_id": pid, "reason": claims.NOT_APPLICABLE[pid]} for pid in ALL if pid not in registry.PROPS]
    m = {
        "version": 1,
        "setup_cmd": "bin/setup",
        "hooks": {
            "guard": "kani",
            "enable": "no source hook in /repo: harness modules are appended as `#[cfg(kani)] #[path=..] mod ..;` lines to a scratch COPY of the crate (kv/gen.py), so private functions are reachable without touching the repository; cfg(kani) is set only by the Kani compiler",
            "baseline_off_cmd": "cd /repo && cargo test --workspace --no-fail-fast --offline",
            "source_commits": [],
            "add_only": True,
        },
        "engines": [
            {"name": "kani-cbmc", "path": "bin/check", "serves_properties": [c["property_id"] for c in checks],
             "kind_free_text": "bounded model checker for Rust (Kani 0.68.0 front end, CBMC 6.11.0, cadical SAT back end); the scratch workspace is regenerated from /repo's working tree on every run"},
        ],
        "checks": checks,
        "not_applicable": na,
        "notes": "Every verdict is bounded: 'for all symbolic inputs inside the stated bound the assertion holds' (UNSAT with passing unwinding assertions and satisfied reachability witnesses) or a concrete counterexample that is replayed natively before a VIOLATION line is printed. Exit 2 = inconclusive (timeout/OOM/bound too small/harness no longer compiles), exit 3 = encoding stale. See DESIGN.md.",
    }
    with open(os.path.join(VERIF, "MANIFEST.json"), "w") as f:
        json.dump(m, f, indent=1)
    print("MANIFEST.json:", len(checks), "checks,", len(na), "not applicable")


if __name__ == "__main__":
    main()
