//! Output-sink model for `alloc::string::String` used as a write-only buffer.
//!
//! CBMC cannot digest heap strings of symbolic length (a 5-digit VLQ string read back from the heap
//! ran out of 12 GB), so harnesses whose kernel only *appends* to one String stub the append
//! operations (`String::push`, `String::push_str`, `String::from(char)`) with the functions below:
//! the appended bytes go to a fixed global array which the oracle then reads.
//! Contract kept: the sink holds exactly the bytes appended, in order. Capacity is `CAP`; a harness
//! that could exceed it fails its own `assert` (never silently truncates).
//!
//! Natively (concrete playback) the stubs are not applied; `contents()` then falls back to the
//! real String, so a replayed counterexample exercises the unmodified std code.

pub const CAP: usize = 48;
pub static mut BUF: [u8; CAP] = [0; CAP];
pub static mut LEN: usize = 0;
pub static mut ACTIVE: bool = false;

#[inline(never)]
pub fn reset() {
    unsafe {
        LEN = 0;
    }
}

fn put(b: u8) {
    unsafe {
        ACTIVE = true;
        assert!(LEN < CAP, "sink capacity exceeded (harness bound too small)");
        BUF[LEN] = b;
        LEN += 1;
    }
}

fn put_char(c: char) {
    let v = c as u32;
    if v < 0x80 {
        put(v as u8);
    } else if v < 0x800 {
        put(0xC0 | (v >> 6) as u8);
        put(0x80 | (v & 0x3F) as u8);
    } else if v < 0x10000 {
        put(0xE0 | (v >> 12) as u8);
        put(0x80 | ((v >> 6) & 0x3F) as u8);
        put(0x80 | (v & 0x3F) as u8);
    } else {
        put(0xF0 | (v >> 18) as u8);
        put(0x80 | ((v >> 12) & 0x3F) as u8);
        put(0x80 | ((v >> 6) & 0x3F) as u8);
        put(0x80 | (v & 0x3F) as u8);
    }
}

/// stub for `alloc::string::String::push`
pub fn string_push(_s: &mut String, c: char) {
    put_char(c);
}

/// pending result of a stubbed `str::repeat` (byte, count): consumed by the next push_str
pub static mut PENDING_REPEAT: Option<(u8, usize)> = None;

/// stub for `str::repeat` on a ONE-byte string (the only use in the kernels): remembers what to
/// repeat; the following `push_str(&that_string)` appends it to the sink.
pub fn str_repeat_1(s: &str, n: usize) -> String {
    assert!(s.len() == 1, "str_repeat_1 stub: one-byte pattern expected");
    unsafe {
        ACTIVE = true;
        PENDING_REPEAT = Some((s.as_bytes()[0], n));
    }
    empty_string()
}

/// An empty String built from explicit raw parts (capacity 0). `String::new()` as a promoted
/// constant came out of Kani's codegen with a non-zero capacity in one crate context (CBMC trace:
/// cap = 4, dangling pointer), which made its drop "free" a dangling pointer; see DESIGN appendix.
#[inline(never)]
pub fn empty_string() -> String {
    unsafe { String::from_raw_parts(core::ptr::NonNull::<u8>::dangling().as_ptr(), 0, 0) }
}

/// stub for `alloc::string::String::push_str`
pub fn string_push_str(_s: &mut String, t: &str) {
    unsafe {
        ACTIVE = true;
        if let Some((b, n)) = PENDING_REPEAT {
            PENDING_REPEAT = None;
            let mut i = 0;
            while i < n {
                put(b);
                i += 1;
            }
            return;
        }
    }
    let b = t.as_bytes();
    let mut i = 0;
    while i < b.len() {
        put(b[i]);
        i += 1;
    }
}

/// stub for `<String as From<char>>::from`: starts a fresh string
pub fn string_from_char(c: char) -> String {
    reset();
    put_char(c);
    empty_string()
}

/// The bytes appended so far: from the sink when the stubs are active (Kani), else from `real`.
pub fn contents(real: &str) -> ([u8; CAP], usize) {
    unsafe {
        if ACTIVE {
            (BUF, LEN)
        } else {
            let mut out = [0u8; CAP];
            let b = real.as_bytes();
            assert!(b.len() <= CAP);
            let mut i = 0;
            while i < b.len() {
                out[i] = b[i];
                i += 1;
            }
            (out, b.len())
        }
    }
}

// ------------------------------------------------------------------------------------------------
/// Stub for `<core::str::pattern::CharSearcher as Searcher>::next_match` (the engine behind
/// `str::split(char)`, `str::lines()`, `str::find(char)`): same contract - "the next occurrence
/// of the needle's UTF-8 encoding in haystack[finger..finger_back], advancing finger past it" - as
/// a plain scan. std's version goes through a word-at-a-time memchr and memcmp whose loops CBMC
/// unwinds to the global bound at every call. The searcher's fields are private, so the stub reads
/// them through a mirror struct with the same field list; `char_searcher_layout_witness` (a Kani
/// harness compiled with every property that uses this stub) proves on a concrete searcher that
/// the mirror reads back the right values in the very build being verified.
pub struct CharSearcherMirror<'a> {
    pub haystack: &'a str,
    pub finger: usize,
    pub finger_back: usize,
    pub needle: char,
    pub utf8_size: u8,
    pub utf8_encoded: [u8; 4],
}

/// # Safety: `s` must point to a `core::str::pattern::CharSearcher` (see layout witness)
pub unsafe fn char_searcher_next_match_impl(m: &mut CharSearcherMirror<'_>) -> Option<(usize, usize)> {
    let b = m.haystack.as_bytes();
    let k = m.utf8_size as usize;
    let mut i = m.finger;
    while i + k <= m.finger_back && i + k <= b.len() {
        let mut eq = true;
        let mut j = 0;
        while j < k {
            if b[i + j] != m.utf8_encoded[j] {
                eq = false;
            }
            j += 1;
        }
        if eq {
            m.finger = i + k;
            return Some((i, i + k));
        }
        i += 1;
    }
    m.finger = m.finger_back;
    None
}
