//! Fixed-capacity model of `alloc::vec::Vec<T>` for kernels that use a Vec as a small stack/list
//! (`vec![]`, push, pop, clear, iter, into_iter, collect). Same observable contract as Vec for these
//! operations; capacity `CAP` is a harness bound (exceeding it fails an assertion, never truncates).
//! Why: every heap Vec of symbolic length costs CBMC minutes (realloc + array theory); this is inline.
pub const CAP: usize = 16;

#[derive(Clone, Debug)]
pub struct Vec<T> {
    a: [Option<T>; CAP],
    n: usize,
}

impl<T> Vec<T> {
    pub fn new() -> Self {
        Vec { a: [const { None }; CAP], n: 0 }
    }
    pub fn with_capacity(_c: usize) -> Self {
        Self::new()
    }
    pub fn len(&self) -> usize {
        self.n
    }
    pub fn is_empty(&self) -> bool {
        self.n == 0
    }
    pub fn push(&mut self, t: T) {
        assert!(self.n < CAP, "fvec capacity (harness bound)");
        self.a[self.n] = Some(t);
        self.n += 1;
    }
    pub fn pop(&mut self) -> Option<T> {
        if self.n == 0 {
            None
        } else {
            self.n -= 1;
            self.a[self.n].take()
        }
    }
    /// Elements are logically removed at once; their destructors run when the slot is reused or
    /// the Vec is dropped (only the *timing* of drops differs from std, never the contents).
    pub fn clear(&mut self) {
        self.n = 0;
    }
    pub fn get(&self, i: usize) -> Option<&T> {
        if i < self.n { self.a[i].as_ref() } else { None }
    }
    pub fn iter(&self) -> Iter<'_, T> {
        Iter { v: self, i: 0 }
    }
    pub fn last(&self) -> Option<&T> {
        if self.n == 0 { None } else { self.a[self.n - 1].as_ref() }
    }
}
impl<T> Default for Vec<T> {
    fn default() -> Self {
        Self::new()
    }
}
impl<T> core::ops::Index<usize> for Vec<T> {
    type Output = T;
    fn index(&self, i: usize) -> &T {
        assert!(i < self.n, "index out of bounds");
        self.a[i].as_ref().unwrap()
    }
}

pub struct Iter<'a, T> {
    v: &'a Vec<T>,
    i: usize,
}
impl<'a, T> Iterator for Iter<'a, T> {
    type Item = &'a T;
    fn nth(&mut self, k: usize) -> Option<&'a T> {
        self.i = if k > self.v.n - self.i { self.v.n } else { self.i + k };
        self.next()
    }
    fn next(&mut self) -> Option<&'a T> {
        if self.i < self.v.n {
            let r = self.v.a[self.i].as_ref();
            self.i += 1;
            r
        } else {
            None
        }
    }
}
pub struct IntoIter<T> {
    v: Vec<T>,
    i: usize,
}
impl<T> Iterator for IntoIter<T> {
    type Item = T;
    fn nth(&mut self, k: usize) -> Option<T> {
        self.i = if k > self.v.n - self.i { self.v.n } else { self.i + k };
        self.next()
    }
    fn next(&mut self) -> Option<T> {
        if self.i < self.v.n {
            let r = self.v.a[self.i].take();
            self.i += 1;
            r
        } else {
            None
        }
    }
}
impl<T> IntoIterator for Vec<T> {
    type Item = T;
    type IntoIter = IntoIter<T>;
    fn into_iter(self) -> IntoIter<T> {
        IntoIter { v: self, i: 0 }
    }
}
impl<'a, T> IntoIterator for &'a Vec<T> {
    type Item = &'a T;
    type IntoIter = Iter<'a, T>;
    fn into_iter(self) -> Iter<'a, T> {
        self.iter()
    }
}
impl<T> FromIterator<T> for Vec<T> {
    fn from_iter<I: IntoIterator<Item = T>>(it: I) -> Self {
        let mut v = Vec::new();
        for x in it {
            v.push(x);
        }
        v
    }
}

#[cfg(test)]
mod tests {
    #[test]
    fn behaves_like_std_vec_on_scripts() {
        // every script of length <= 6 over {push(i), pop, clear}: same observations as std Vec
        fn rec(script: &mut std::vec::Vec<u8>, depth: usize, count: &mut usize) {
            let mut m = super::Vec::<u32>::new();
            let mut s = std::vec::Vec::<u32>::new();
            for (i, op) in script.iter().enumerate() {
                match op {
                    0 => {
                        m.push(i as u32);
                        s.push(i as u32)
                    }
                    1 => assert_eq!(m.pop(), s.pop()),
                    _ => {
                        m.clear();
                        s.clear()
                    }
                }
                assert_eq!(m.len(), s.len());
                assert_eq!(m.iter().copied().collect::<std::vec::Vec<_>>(), s);
            }
            assert_eq!(m.clone().into_iter().collect::<std::vec::Vec<_>>(), s);
            *count += 1;
            if depth == 0 {
                return;
            }
            for op in 0..3u8 {
                script.push(op);
                rec(script, depth - 1, count);
                script.pop();
            }
        }
        let mut c = 0;
        rec(&mut vec![], 6, &mut c);
        assert!(c > 1000);
    }
}
