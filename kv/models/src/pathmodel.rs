//! Component-list model of `std::path::{Path, PathBuf, Component}` (Unix semantics).
//!
//! A path is the list of components that `std::path::Path::components()` would yield for it:
//!   * interior and trailing `.` are dropped, a leading `.` is kept only on relative paths;
//!   * `..` is kept verbatim (never resolved);
//!   * `push(p)`: an absolute `p` replaces the path, a relative one is appended;
//!   * `pop()`: removes the last component; fails (returns false) on the empty path and on `/`.
//! No byte-level parsing exists in the model: how a *string* splits into components (separators,
//! `//`, trailing `/`, non-UTF-8) is outside every claim that uses it.
//! `tests` below compare the model with the real std::path on every component list up to length 5
//! over {name1, name2, ., ..} with and without a root, for components/push/pop.

pub const CAP: usize = 10;

#[derive(Clone, Copy, PartialEq, Eq, Debug, Hash)]
pub struct Name(pub u8);

/// Never constructed (Windows only).
#[derive(Clone, Copy, PartialEq, Eq, Debug, Hash)]
pub struct PrefixComponent(());

#[derive(Clone, Copy, PartialEq, Eq, Debug, Hash)]
pub enum Component {
    Prefix(PrefixComponent),
    RootDir,
    CurDir,
    ParentDir,
    Normal(Name),
}

/// What `Component::as_os_str` returns in the model: the component itself, pushable.
#[derive(Clone, Copy, PartialEq, Eq, Debug)]
pub struct CompStr(pub Component);

impl Component {
    pub fn as_os_str(self) -> CompStr {
        CompStr(self)
    }
}

#[derive(Clone, Copy, Debug)]
pub struct Path {
    c: [Component; CAP],
    n: usize,
}
pub type PathBuf = Path;

impl PartialEq for Path {
    fn eq(&self, o: &Path) -> bool {
        if self.n != o.n {
            return false;
        }
        let mut i = 0;
        while i < self.n {
            if self.c[i] != o.c[i] {
                return false;
            }
            i += 1;
        }
        true
    }
}
impl Eq for Path {}

pub trait PushArg {
    fn push_onto(&self, p: &mut Path);
}
impl PushArg for Component {
    fn push_onto(&self, p: &mut Path) {
        p.push_component(*self);
    }
}
impl PushArg for CompStr {
    fn push_onto(&self, p: &mut Path) {
        p.push_component(self.0);
    }
}
impl PushArg for &Path {
    fn push_onto(&self, p: &mut Path) {
        let mut i = 0;
        while i < self.n {
            p.push_component(self.c[i]);
            i += 1;
        }
    }
}
impl PushArg for Path {
    fn push_onto(&self, p: &mut Path) {
        (&self).push_onto(p)
    }
}

impl Default for Path {
    fn default() -> Self {
        Self::new()
    }
}

impl Path {
    pub const fn new() -> Path {
        Path { c: [Component::CurDir; CAP], n: 0 }
    }
    pub fn from_components(cs: &[Component]) -> Path {
        let mut p = Path::new();
        let mut i = 0;
        while i < cs.len() {
            p.push_component(cs[i]);
            i += 1;
        }
        p
    }
    pub fn len(&self) -> usize {
        self.n
    }
    pub fn is_empty(&self) -> bool {
        self.n == 0
    }
    pub fn get(&self, i: usize) -> Component {
        assert!(i < self.n);
        self.c[i]
    }
    pub fn to_path_buf(&self) -> PathBuf {
        *self
    }
    pub fn as_path(&self) -> &Path {
        self
    }
    pub fn is_absolute(&self) -> bool {
        self.n > 0 && matches!(self.c[0], Component::RootDir)
    }
    pub fn has_root(&self) -> bool {
        self.is_absolute()
    }
    fn push_component(&mut self, c: Component) {
        match c {
            Component::RootDir | Component::Prefix(_) => {
                // pushing an absolute path replaces the current one
                self.n = 0;
                self.c[0] = c;
                self.n = 1;
            }
            Component::CurDir => {
                // `x/.` has the same components as `x`; only a leading `.` survives
                if self.n == 0 {
                    self.c[0] = c;
                    self.n = 1;
                }
            }
            _ => {
                assert!(self.n < CAP, "pathmodel capacity (harness bound)");
                self.c[self.n] = c;
                self.n += 1;
            }
        }
    }
    pub fn push<P: PushArg>(&mut self, p: P) {
        p.push_onto(self)
    }
    /// std: "Truncates self to self.parent(). Returns false and does nothing if self.parent() is None."
    /// parent() is None for the empty path and for a path that ends in a root.
    pub fn pop(&mut self) -> bool {
        if self.n == 0 {
            return false;
        }
        match self.c[self.n - 1] {
            Component::RootDir | Component::Prefix(_) => false,
            _ => {
                self.n -= 1;
                true
            }
        }
    }
    pub fn components(&self) -> Components<'_> {
        Components { p: self, i: 0 }
    }
    pub fn join<P: PushArg>(&self, p: P) -> PathBuf {
        let mut r = *self;
        r.push(p);
        r
    }
    pub fn parent(&self) -> Option<Path> {
        let mut r = *self;
        if r.pop() { Some(r) } else { None }
    }
}

impl AsRef<Path> for Path {
    fn as_ref(&self) -> &Path {
        self
    }
}

pub struct Components<'a> {
    p: &'a Path,
    i: usize,
}
impl<'a> Iterator for Components<'a> {
    type Item = Component;
    fn next(&mut self) -> Option<Component> {
        if self.i < self.p.n {
            let c = self.p.c[self.i];
            self.i += 1;
            Some(c)
        } else {
            None
        }
    }
}

#[cfg(test)]
mod tests {
    use super::*;
    use std::path as sp;

    fn name_str(n: u8) -> &'static str {
        match n {
            1 => "a",
            2 => "bb",
            _ => "c",
        }
    }
    fn to_std_string(root: bool, cs: &[Component]) -> String {
        let mut s = String::new();
        if root {
            s.push('/');
        }
        for (i, c) in cs.iter().enumerate() {
            if i > 0 {
                s.push('/');
            }
            match c {
                Component::CurDir => s.push('.'),
                Component::ParentDir => s.push_str(".."),
                Component::Normal(n) => s.push_str(name_str(n.0)),
                _ => unreachable!(),
            }
        }
        s
    }
    fn std_comps(p: &sp::Path) -> Vec<Component> {
        p.components()
            .map(|c| match c {
                sp::Component::RootDir => Component::RootDir,
                sp::Component::CurDir => Component::CurDir,
                sp::Component::ParentDir => Component::ParentDir,
                sp::Component::Normal(s) => Component::Normal(Name(match s.to_str().unwrap() {
                    "a" => 1,
                    "bb" => 2,
                    _ => 3,
                })),
                sp::Component::Prefix(_) => unreachable!(),
            })
            .collect()
    }
    fn model_of(root: bool, cs: &[Component]) -> Path {
        let mut p = Path::new();
        if root {
            p.push(Component::RootDir);
        }
        for c in cs {
            p.push(*c);
        }
        p
    }
    fn all_lists(maxlen: usize) -> Vec<Vec<Component>> {
        let alpha = [Component::Normal(Name(1)), Component::Normal(Name(2)), Component::CurDir, Component::ParentDir];
        let mut out: Vec<Vec<Component>> = vec![vec![]];
        let mut frontier: Vec<Vec<Component>> = vec![vec![]];
        for _ in 0..maxlen {
            let mut next = vec![];
            for l in &frontier {
                for a in alpha {
                    let mut m = l.clone();
                    m.push(a);
                    next.push(m);
                }
            }
            out.extend(next.iter().cloned());
            frontier = next;
        }
        out
    }

    #[test]
    fn components_and_pop_agree_with_std() {
        let mut n = 0;
        for root in [false, true] {
            for l in all_lists(5) {
                let s = to_std_string(root, &l);
                let sp_path = sp::PathBuf::from(&s);
                let m = model_of(root, &l);
                assert_eq!(std_comps(&sp_path), m.components().collect::<Vec<_>>(), "components of {s:?}");
                let mut sp2 = sp_path.clone();
                let mut m2 = m;
                let r1 = sp2.pop();
                let r2 = m2.pop();
                assert_eq!(r1, r2, "pop result of {s:?}");
                assert_eq!(std_comps(&sp2), m2.components().collect::<Vec<_>>(), "after pop of {s:?}");
                n += 1;
            }
        }
        assert!(n > 2000);
    }

    #[test]
    fn push_agrees_with_std() {
        let lists = all_lists(3);
        for root_a in [false, true] {
            for a in &lists {
                for root_b in [false, true] {
                    for b in &lists {
                        let sa = to_std_string(root_a, a);
                        let sb = to_std_string(root_b, b);
                        let mut spa = sp::PathBuf::from(&sa);
                        spa.push(sp::Path::new(&sb));
                        let mut ma = model_of(root_a, a);
                        let mb = model_of(root_b, b);
                        ma.push(&mb);
                        assert_eq!(std_comps(&spa), ma.components().collect::<Vec<_>>(), "{sa:?}.push({sb:?})");
                        // component-wise push as done by normalize_path / relative_path
                        let mut spc = sp::PathBuf::new();
                        let mut mc = Path::new();
                        for c in sp::Path::new(&sa).components() {
                            spc.push(c.as_os_str());
                        }
                        for c in model_of(root_a, a).components() {
                            mc.push(c.as_os_str());
                        }
                        assert_eq!(std_comps(&spc), mc.components().collect::<Vec<_>>(), "rebuild {sa:?}");
                    }
                }
            }
        }
    }
}
