//! Component-list model of `std::path::{Path, PathBuf, Component}` (Unix semantics).
//!
//! A path is the list of components that `std::path::Path::components()` would yield for it:
//!   * interior and trailing `.` are dropped, a leading `.` is kept only on relative paths;
//!   * `..` is kept verbatim (never resolved);
//!   * `push(p)`: an absolute `p` replaces the path, a relative one is appended;
//!   * `pop()`: removes the last component; fails (returns false) on the empty path and on `/`.
//! No byte-level parsing exists in the model: how a *string* splits into components (separators,
//! `//`, trailing `/`, non-UTF-8) is outside every claim that uses it.
//! `tests` below compare the model with the real std::path on every component list up to length 5
//! over {name1, name2, ., ..} with and without a root, for components/push/pop.

pub const CAP: usize = 16;

#[derive(Clone, Copy, PartialEq, Eq, Debug, Hash)]
pub struct Name(pub u8);

/// Never constructed (Windows only).
#[derive(Clone, Copy, PartialEq, Eq, Debug, Hash)]
pub struct PrefixComponent(());

#[derive(Clone, Copy, PartialEq, Eq, Debug, Hash)]
pub enum Component {
    Prefix(PrefixComponent),
    RootDir,
    CurDir,
    ParentDir,
    Normal(Name),
}

/// What `Component::as_os_str` returns in the model: the component itself, pushable.
#[derive(Clone, Copy, PartialEq, Eq, Debug)]
pub struct CompStr(pub Component);

impl Component {
    pub fn as_os_str(self) -> CompStr {
        CompStr(self)
    }
}

#[derive(Clone, Copy)]
pub struct Path {
    c: [Component; CAP],
    n: usize,
}

/// Owned path. A distinct type that derefs to `Path`, as in std.
#[derive(Clone, Copy)]
pub struct PathBuf {
    p: Path,
}

#[derive(Debug, Clone, PartialEq, Eq)]
pub struct StripPrefixError(());

impl PartialEq for Path {
    fn eq(&self, o: &Path) -> bool {
        if self.n != o.n {
            return false;
        }
        let mut i = 0;
        while i < self.n {
            if self.c[i] != o.c[i] {
                return false;
            }
            i += 1;
        }
        true
    }
}
impl Eq for Path {}
impl PartialEq for PathBuf {
    fn eq(&self, o: &PathBuf) -> bool {
        self.p == o.p
    }
}
impl Eq for PathBuf {}
impl PartialEq<Path> for PathBuf {
    fn eq(&self, o: &Path) -> bool {
        self.p == *o
    }
}
impl PartialEq<&Path> for PathBuf {
    fn eq(&self, o: &&Path) -> bool {
        self.p == **o
    }
}
impl PartialEq<PathBuf> for Path {
    fn eq(&self, o: &PathBuf) -> bool {
        *self == o.p
    }
}
impl PartialEq<PathBuf> for &Path {
    fn eq(&self, o: &PathBuf) -> bool {
        **self == o.p
    }
}
impl core::hash::Hash for Path {
    fn hash<H: core::hash::Hasher>(&self, h: &mut H) {
        let mut i = 0;
        while i < self.n {
            self.c[i].hash(h);
            i += 1;
        }
    }
}
impl core::hash::Hash for PathBuf {
    fn hash<H: core::hash::Hasher>(&self, h: &mut H) {
        self.p.hash(h)
    }
}
impl core::fmt::Debug for Path {
    fn fmt(&self, f: &mut core::fmt::Formatter<'_>) -> core::fmt::Result {
        f.write_str("\"")?;
        let mut i = 0;
        while i < self.n {
            match self.c[i] {
                Component::RootDir => f.write_str("/")?,
                Component::CurDir => f.write_str("./")?,
                Component::ParentDir => f.write_str("../")?,
                Component::Normal(n) => write!(f, "{}/", name_text(n))?,
                Component::Prefix(_) => {}
            }
            i += 1;
        }
        f.write_str("\"")
    }
}
impl core::fmt::Debug for PathBuf {
    fn fmt(&self, f: &mut core::fmt::Formatter<'_>) -> core::fmt::Result {
        self.p.fmt(f)
    }
}

// ---- names of `Normal` components that come from string literals (`Path::new("a/b")`, push("x")) ----
// Harness inputs never go through here (they are component lists); this exists so that code which
// spells paths as string literals still compiles and runs against the model (e.g. the repository's
// own unit tests of relative_path.rs, which are run against the model natively).
const MAXNAMES: usize = 64;
static mut NAMES: [Option<&'static str>; MAXNAMES] = [None; MAXNAMES];
fn intern(s: &str) -> Name {
    unsafe {
        let names = &mut *core::ptr::addr_of_mut!(NAMES);
        let mut i = 0;
        while i < MAXNAMES {
            match names[i] {
                Some(t) => {
                    if t == s {
                        return Name(100 + i as u8);
                    }
                }
                None => {
                    names[i] = Some(Box::leak(s.to_owned().into_boxed_str()));
                    return Name(100 + i as u8);
                }
            }
            i += 1;
        }
    }
    panic!("pathmodel: name table full");
}
fn name_text(n: Name) -> &'static str {
    if n.0 >= 100 {
        unsafe { (*core::ptr::addr_of!(NAMES))[(n.0 - 100) as usize].unwrap_or("?") }
    } else {
        match n.0 {
            1 => "x",
            2 => "y",
            _ => "z",
        }
    }
}
fn parse_into(s: &str, p: &mut Path) {
    let b = s.as_bytes();
    if !b.is_empty() && b[0] == b'/' {
        p.push_component(Component::RootDir);
    }
    let mut start = 0;
    let mut i = 0;
    while i <= b.len() {
        if i == b.len() || b[i] == b'/' {
            let seg = &s[start..i];
            if seg == "." {
                p.push_component(Component::CurDir);
            } else if seg == ".." {
                p.push_component(Component::ParentDir);
            } else if !seg.is_empty() {
                p.push_component(Component::Normal(intern(seg)));
            }
            start = i + 1;
        }
        i += 1;
    }
}

pub trait PushArg {
    fn push_onto(&self, p: &mut Path);
}
impl PushArg for Component {
    fn push_onto(&self, p: &mut Path) {
        p.push_component(*self);
    }
}
impl PushArg for CompStr {
    fn push_onto(&self, p: &mut Path) {
        p.push_component(self.0);
    }
}
impl PushArg for &Path {
    fn push_onto(&self, p: &mut Path) {
        let mut i = 0;
        while i < self.n {
            p.push_component(self.c[i]);
            i += 1;
        }
    }
}
impl PushArg for Path {
    fn push_onto(&self, p: &mut Path) {
        (&self).push_onto(p)
    }
}
impl PushArg for PathBuf {
    fn push_onto(&self, p: &mut Path) {
        (&self.p).push_onto(p)
    }
}
impl PushArg for &PathBuf {
    fn push_onto(&self, p: &mut Path) {
        (&self.p).push_onto(p)
    }
}
impl PushArg for &str {
    fn push_onto(&self, p: &mut Path) {
        parse_into(self, p)
    }
}
impl PushArg for &String {
    fn push_onto(&self, p: &mut Path) {
        parse_into(self.as_str(), p)
    }
}
impl PushArg for String {
    fn push_onto(&self, p: &mut Path) {
        parse_into(self.as_str(), p)
    }
}

impl Path {
    const EMPTY: Path = Path { c: [Component::CurDir; CAP], n: 0 };
    /// `Path::new("a/b")`: parses a string spelling (literals only; see the note on names above)
    pub fn new<S: AsRef<str> + ?Sized>(s: &S) -> &'static Path {
        let mut p = Path::EMPTY;
        parse_into(s.as_ref(), &mut p);
        Box::leak(Box::new(p))
    }
    pub fn from_components(cs: &[Component]) -> PathBuf {
        let mut p = PathBuf::new();
        let mut i = 0;
        while i < cs.len() {
            p.push(cs[i]);
            i += 1;
        }
        p
    }
    pub fn len(&self) -> usize {
        self.n
    }
    pub fn is_empty(&self) -> bool {
        self.n == 0
    }
    pub fn get(&self, i: usize) -> Component {
        assert!(i < self.n);
        self.c[i]
    }
    pub fn to_path_buf(&self) -> PathBuf {
        PathBuf { p: *self }
    }
    pub fn to_owned(&self) -> PathBuf {
        PathBuf { p: *self }
    }
    pub fn is_absolute(&self) -> bool {
        self.n > 0 && matches!(self.c[0], Component::RootDir)
    }
    pub fn is_relative(&self) -> bool {
        !self.is_absolute()
    }
    pub fn has_root(&self) -> bool {
        self.is_absolute()
    }
    fn push_component(&mut self, c: Component) {
        match c {
            Component::RootDir | Component::Prefix(_) => {
                // pushing an absolute path replaces the current one
                self.c[0] = c;
                self.n = 1;
            }
            Component::CurDir => {
                // `x/.` has the same components as `x`; only a leading `.` survives
                if self.n == 0 {
                    self.c[0] = c;
                    self.n = 1;
                }
            }
            _ => {
                assert!(self.n < CAP, "pathmodel capacity (harness bound)");
                self.c[self.n] = c;
                self.n += 1;
            }
        }
    }
    fn pop_inner(&mut self) -> bool {
        if self.n == 0 {
            return false;
        }
        match self.c[self.n - 1] {
            Component::RootDir | Component::Prefix(_) => false,
            _ => {
                self.n -= 1;
                true
            }
        }
    }
    pub fn components(&self) -> Components<'_> {
        Components { p: self, i: 0, j: self.n }
    }
    pub fn iter(&self) -> Components<'_> {
        self.components()
    }
    pub fn join<P: PushArg>(&self, p: P) -> PathBuf {
        let mut r = self.to_path_buf();
        r.push(p);
        r
    }
    /// std: the path without its final component, None for the empty path and for a root
    pub fn parent(&self) -> Option<&'static Path> {
        let mut r = *self;
        if r.pop_inner() { Some(Box::leak(Box::new(r))) } else { None }
    }
    /// std: the final component if it is a normal one (None if the path ends in `..` or is a root)
    pub fn file_name(&self) -> Option<CompStr> {
        if self.n == 0 {
            return None;
        }
        match self.c[self.n - 1] {
            c @ Component::Normal(_) => Some(CompStr(c)),
            _ => None,
        }
    }
    pub fn starts_with<P: PushArg>(&self, base: P) -> bool {
        let mut b = Path::EMPTY;
        base.push_onto(&mut b);
        if b.n > self.n {
            return false;
        }
        let mut i = 0;
        while i < b.n {
            if self.c[i] != b.c[i] {
                return false;
            }
            i += 1;
        }
        true
    }
    pub fn ends_with<P: PushArg>(&self, child: P) -> bool {
        let mut b = Path::EMPTY;
        child.push_onto(&mut b);
        if b.n > self.n || (b.is_absolute() && b.n != self.n) {
            return false;
        }
        let mut i = 0;
        while i < b.n {
            if self.c[self.n - b.n + i] != b.c[i] {
                return false;
            }
            i += 1;
        }
        true
    }
    /// std: "Returns a path that, when joined onto base, yields self"; Err if base is not a prefix
    pub fn strip_prefix<P: PushArg>(&self, base: P) -> Result<&'static Path, StripPrefixError> {
        let mut b = Path::EMPTY;
        base.push_onto(&mut b);
        if !self.starts_with(&b) {
            return Err(StripPrefixError(()));
        }
        let mut r = Path::EMPTY;
        let mut i = b.n;
        while i < self.n {
            // raw copy: the remainder of a path keeps its components as they are
            r.c[r.n] = self.c[i];
            r.n += 1;
            i += 1;
        }
        Ok(Box::leak(Box::new(r)))
    }
}

impl PathBuf {
    pub const fn new() -> PathBuf {
        PathBuf { p: Path::EMPTY }
    }
    pub fn as_path(&self) -> &Path {
        &self.p
    }
    pub fn push<P: PushArg>(&mut self, p: P) {
        p.push_onto(&mut self.p)
    }
    /// std: "Truncates self to self.parent(). Returns false and does nothing if self.parent() is None."
    pub fn pop(&mut self) -> bool {
        self.p.pop_inner()
    }
    pub fn from<S: AsRef<str>>(s: S) -> PathBuf {
        let mut p = Path::EMPTY;
        parse_into(s.as_ref(), &mut p);
        PathBuf { p }
    }
}
impl Default for PathBuf {
    fn default() -> Self {
        Self::new()
    }
}
impl core::ops::Deref for PathBuf {
    type Target = Path;
    fn deref(&self) -> &Path {
        &self.p
    }
}
impl AsRef<Path> for Path {
    fn as_ref(&self) -> &Path {
        self
    }
}
impl AsRef<Path> for PathBuf {
    fn as_ref(&self) -> &Path {
        &self.p
    }
}
impl core::borrow::Borrow<Path> for PathBuf {
    fn borrow(&self) -> &Path {
        &self.p
    }
}

#[derive(Clone)]
pub struct Components<'a> {
    p: &'a Path,
    i: usize,
    j: usize,
}
impl<'a> Components<'a> {
    pub fn as_path(&self) -> &'static Path {
        let mut r = Path::EMPTY;
        let mut k = self.i;
        while k < self.j {
            r.c[r.n] = self.p.c[k];
            r.n += 1;
            k += 1;
        }
        Box::leak(Box::new(r))
    }
}
impl<'a> Iterator for Components<'a> {
    type Item = Component;
    fn next(&mut self) -> Option<Component> {
        if self.i < self.j {
            let c = self.p.c[self.i];
            self.i += 1;
            Some(c)
        } else {
            None
        }
    }
}
impl<'a> DoubleEndedIterator for Components<'a> {
    fn next_back(&mut self) -> Option<Component> {
        if self.i < self.j {
            self.j -= 1;
            Some(self.p.c[self.j])
        } else {
            None
        }
    }
}

#[cfg(test)]
mod tests {
    use super::*;
    use std::path as sp;

    fn name_str(n: u8) -> &'static str {
        match n {
            1 => "a",
            2 => "bb",
            _ => "c",
        }
    }
    fn to_std_string(root: bool, cs: &[Component]) -> String {
        let mut s = String::new();
        if root {
            s.push('/');
        }
        for (i, c) in cs.iter().enumerate() {
            if i > 0 {
                s.push('/');
            }
            match c {
                Component::CurDir => s.push('.'),
                Component::ParentDir => s.push_str(".."),
                Component::Normal(n) => s.push_str(name_str(n.0)),
                _ => unreachable!(),
            }
        }
        s
    }
    fn std_comps(p: &sp::Path) -> Vec<Component> {
        p.components()
            .map(|c| match c {
                sp::Component::RootDir => Component::RootDir,
                sp::Component::CurDir => Component::CurDir,
                sp::Component::ParentDir => Component::ParentDir,
                sp::Component::Normal(s) => Component::Normal(Name(match s.to_str().unwrap() {
                    "a" => 1,
                    "bb" => 2,
                    _ => 3,
                })),
                sp::Component::Prefix(_) => unreachable!(),
            })
            .collect()
    }
    fn model_of(root: bool, cs: &[Component]) -> PathBuf {
        let mut p = PathBuf::new();
        if root {
            p.push(Component::RootDir);
        }
        for c in cs {
            p.push(*c);
        }
        p
    }
    fn all_lists(maxlen: usize) -> Vec<Vec<Component>> {
        let alpha = [Component::Normal(Name(1)), Component::Normal(Name(2)), Component::CurDir, Component::ParentDir];
        let mut out: Vec<Vec<Component>> = vec![vec![]];
        let mut frontier: Vec<Vec<Component>> = vec![vec![]];
        for _ in 0..maxlen {
            let mut next = vec![];
            for l in &frontier {
                for a in alpha {
                    let mut m = l.clone();
                    m.push(a);
                    next.push(m);
                }
            }
            out.extend(next.iter().cloned());
            frontier = next;
        }
        out
    }

    #[test]
    fn components_and_pop_agree_with_std() {
        let mut n = 0;
        for root in [false, true] {
            for l in all_lists(5) {
                let s = to_std_string(root, &l);
                let sp_path = sp::PathBuf::from(&s);
                let m = model_of(root, &l);
                assert_eq!(std_comps(&sp_path), m.components().collect::<Vec<_>>(), "components of {s:?}");
                let mut sp2 = sp_path.clone();
                let mut m2 = m;
                let r1 = sp2.pop();
                let r2 = m2.pop();
                assert_eq!(r1, r2, "pop result of {s:?}");
                assert_eq!(std_comps(&sp2), m2.components().collect::<Vec<_>>(), "after pop of {s:?}");
                n += 1;
            }
        }
        assert!(n > 2000);
    }

    #[test]
    fn push_agrees_with_std() {
        let lists = all_lists(3);
        for root_a in [false, true] {
            for a in &lists {
                for root_b in [false, true] {
                    for b in &lists {
                        let sa = to_std_string(root_a, a);
                        let sb = to_std_string(root_b, b);
                        let mut spa = sp::PathBuf::from(&sa);
                        spa.push(sp::Path::new(&sb));
                        let mut ma = model_of(root_a, a);
                        let mb = model_of(root_b, b);
                        ma.push(&mb);
                        // the string route of the model (Path::new on the same spelling) agrees too
                        let ms = Path::new(&sb);
                        assert_eq!(std_comps(sp::Path::new(&sb)).len(), ms.components().count(), "parse {sb:?}");
                        assert_eq!(std_comps(&spa), ma.components().collect::<Vec<_>>(), "{sa:?}.push({sb:?})");
                        // component-wise push as done by normalize_path / relative_path
                        let mut spc = sp::PathBuf::new();
                        let mut mc = PathBuf::new();
                        for c in sp::Path::new(&sa).components() {
                            spc.push(c.as_os_str());
                        }
                        for c in model_of(root_a, a).components() {
                            mc.push(c.as_os_str());
                        }
                        assert_eq!(std_comps(&spc), mc.components().collect::<Vec<_>>(), "rebuild {sa:?}");
                    }
                }
            }
        }
    }
}
