// filled in later
