//! Library models used by the Kani encodings (see /verif/DESIGN.md section 2.3).
//! Each model keeps the documented contract of the library type it replaces and stores its
//! contents in a Vec so that CBMC's symbolic execution stays small.
pub mod lrumodel;
pub mod vmap;
pub mod pathmodel;
pub mod sink;
pub mod fvec;
pub mod bvec;
