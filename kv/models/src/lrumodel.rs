//! Model of `lru::LruCache<K, V>`: capacity-bounded map with least-recently-used eviction.
//! `get` promotes the entry to most-recently-used; `put` inserts/updates and promotes, evicting
//! the least recently used entry when the capacity is exceeded (lru crate docs).
//! Storage: a Vec allocated once at capacity, entries never move; recency is a per-entry stamp.
use std::borrow::Borrow;
use std::num::NonZeroUsize;

pub struct LruCache<K, V> {
    cap: usize,
    clock: u64,
    items: Vec<(K, V, u64)>,
}

impl<K: Eq, V> LruCache<K, V> {
    pub fn new(cap: NonZeroUsize) -> Self {
        LruCache { cap: cap.get(), clock: 0, items: Vec::with_capacity(cap.get()) }
    }
    pub fn len(&self) -> usize {
        self.items.len()
    }
    pub fn is_empty(&self) -> bool {
        self.items.is_empty()
    }
    pub fn get<'a, Q>(&'a mut self, k: &Q) -> Option<&'a V>
    where
        K: Borrow<Q>,
        Q: Eq + ?Sized,
    {
        let mut i = 0;
        while i < self.items.len() {
            if self.items[i].0.borrow() == k {
                self.clock += 1;
                self.items[i].2 = self.clock;
                return Some(&self.items[i].1);
            }
            i += 1;
        }
        None
    }
    pub fn put(&mut self, k: K, v: V) -> Option<V> {
        self.clock += 1;
        let mut i = 0;
        while i < self.items.len() {
            if self.items[i].0 == k {
                self.items[i].2 = self.clock;
                return Some(core::mem::replace(&mut self.items[i].1, v));
            }
            i += 1;
        }
        if self.items.len() >= self.cap {
            // evict the least recently used entry, in place
            let mut lru = 0;
            let mut j = 1;
            while j < self.items.len() {
                if self.items[j].2 < self.items[lru].2 {
                    lru = j;
                }
                j += 1;
            }
            self.items[lru] = (k, v, self.clock);
        } else {
            self.items.push((k, v, self.clock));
        }
        None
    }
}
