//! Model of `lru::LruCache<K, V>`: capacity-bounded map with least-recently-used eviction.
//! `get` promotes the entry to most-recently-used; `put` inserts/updates and promotes, evicting
//! the least recently used entry when the capacity is exceeded (lru crate docs).
use std::borrow::Borrow;
use std::num::NonZeroUsize;

pub struct LruCache<K, V> {
    cap: usize,
    /// most recently used LAST
    items: Vec<(K, V)>,
}

impl<K: Eq, V> LruCache<K, V> {
    pub fn new(cap: NonZeroUsize) -> Self {
        LruCache { cap: cap.get(), items: Vec::new() }
    }
    pub fn len(&self) -> usize {
        self.items.len()
    }
    pub fn is_empty(&self) -> bool {
        self.items.is_empty()
    }
    pub fn get<'a, Q>(&'a mut self, k: &Q) -> Option<&'a V>
    where
        K: Borrow<Q>,
        Q: Eq + ?Sized,
    {
        let mut found: Option<usize> = None;
        let mut i = 0;
        while i < self.items.len() {
            if self.items[i].0.borrow() == k {
                found = Some(i);
                break;
            }
            i += 1;
        }
        match found {
            None => None,
            Some(i) => {
                let e = self.items.remove(i);
                self.items.push(e);
                self.items.last().map(|e| &e.1)
            }
        }
    }
    pub fn put(&mut self, k: K, v: V) -> Option<V> {
        let mut i = 0;
        while i < self.items.len() {
            if self.items[i].0 == k {
                let old = self.items.remove(i);
                self.items.push((k, v));
                return Some(old.1);
            }
            i += 1;
        }
        if self.items.len() >= self.cap {
            self.items.remove(0);
        }
        self.items.push((k, v));
        None
    }
}
