//! Boxed fixed-capacity model of `alloc::vec::Vec<T>`.
//!
//! Same observable contract as `Vec<T>` (a growable sequence with slice access through Deref),
//! but storage is ONE heap block of `CAP` slots allocated at construction and never reallocated:
//! CBMC handles fixed-size objects well, while std's RawVec (symbolic-size allocations, realloc
//! on growth, memmove) costs it minutes to hours per list. Exceeding `CAP` fails an assertion
//! ("harness bound"), it never truncates silently. Capacity-related API (capacity, reserve,
//! shrink_to_fit) is accepted and ignored: capacity is not observable behaviour of the kernels.
//!
//! Validated natively against std::vec::Vec on exhaustive operation scripts (tests below).
use core::mem::{ManuallyDrop, MaybeUninit};
use core::ops::{Deref, DerefMut};

pub const CAP: usize = 8;

pub struct Vec<T> {
    a: Box<[MaybeUninit<T>; CAP]>,
    n: usize,
}

impl<T> Vec<T> {
    pub fn new() -> Self {
        // allocate the block directly on the heap (no stack array + memcpy for CBMC to model)
        let a: Box<[MaybeUninit<T>; CAP]> = unsafe { Box::<[MaybeUninit<T>; CAP]>::new_uninit().assume_init() };
        Vec { a, n: 0 }
    }
    pub fn with_capacity(_c: usize) -> Self {
        Self::new()
    }
    pub fn from_array<const N: usize>(arr: [T; N]) -> Self {
        let mut v = Self::new();
        for x in arr {
            v.push(x);
        }
        v
    }
    pub fn capacity(&self) -> usize {
        CAP
    }
    pub fn reserve(&mut self, _n: usize) {}
    pub fn shrink_to_fit(&mut self) {}
    pub fn push(&mut self, t: T) {
        assert!(self.n < CAP, "bvec capacity (harness bound)");
        self.a[self.n] = MaybeUninit::new(t);
        self.n += 1;
    }
    pub fn pop(&mut self) -> Option<T> {
        if self.n == 0 {
            None
        } else {
            self.n -= 1;
            Some(unsafe { self.a[self.n].assume_init_read() })
        }
    }
    pub fn clear(&mut self) {
        self.truncate(0)
    }
    /// Under Kani the model does NOT run element destructors (elements are leaked): the recursive
    /// drop glue of AST values (`Value` -> `Vec<Value>` -> ...) is unwound by CBMC to the loop bound at
    /// every potential drop site and dominated every probe. No claim made with this model is about
    /// destructor side effects of Vec elements. Natively (tests, replay) elements are dropped as usual.
    pub fn truncate(&mut self, len: usize) {
        #[cfg(kani)]
        {
            if self.n > len {
                self.n = len;
            }
        }
        #[cfg(not(kani))]
        while self.n > len {
            self.n -= 1;
            unsafe { self.a[self.n].assume_init_drop() };
        }
    }
    pub fn insert(&mut self, idx: usize, t: T) {
        assert!(idx <= self.n, "insertion index out of bounds");
        assert!(self.n < CAP, "bvec capacity (harness bound)");
        let mut i = self.n;
        while i > idx {
            self.a[i] = MaybeUninit::new(unsafe { self.a[i - 1].assume_init_read() });
            i -= 1;
        }
        self.a[idx] = MaybeUninit::new(t);
        self.n += 1;
    }
    pub fn remove(&mut self, idx: usize) -> T {
        assert!(idx < self.n, "removal index out of bounds");
        let r = unsafe { self.a[idx].assume_init_read() };
        let mut i = idx;
        while i + 1 < self.n {
            self.a[i] = MaybeUninit::new(unsafe { self.a[i + 1].assume_init_read() });
            i += 1;
        }
        self.n -= 1;
        r
    }
    /// removes element `idx` by moving the last element into its place (order not preserved)
    pub fn swap_remove(&mut self, idx: usize) -> T {
        assert!(idx < self.n, "swap_remove index out of bounds");
        let r = unsafe { self.a[idx].assume_init_read() };
        self.n -= 1;
        if idx != self.n {
            self.a[idx] = MaybeUninit::new(unsafe { self.a[self.n].assume_init_read() });
        }
        r
    }
    pub fn retain<F: FnMut(&T) -> bool>(&mut self, mut f: F) {
        let mut w = 0;
        let mut r = 0;
        let n = self.n;
        while r < n {
            let x = unsafe { self.a[r].assume_init_read() };
            if f(&x) {
                self.a[w] = MaybeUninit::new(x);
                w += 1;
            } else {
                #[cfg(kani)]
                core::mem::forget(x);
                #[cfg(not(kani))]
                drop(x);
            }
            r += 1;
        }
        self.n = w;
    }
    pub fn append(&mut self, other: &mut Vec<T>) {
        let mut i = 0;
        while i < other.n {
            let x = unsafe { other.a[i].assume_init_read() };
            self.push(x);
            i += 1;
        }
        other.n = 0;
    }
    pub fn extend_from_slice(&mut self, s: &[T])
    where
        T: Clone,
    {
        for x in s {
            self.push(x.clone());
        }
    }
    /// Stable sort (contract of `<[T]>::sort_by_key`), as a plain insertion sort: std's driftsort
    /// (scratch buffers, bidirectional merges) is a library algorithm CBMC cannot unwind in minutes.
    pub fn sort_by_key<K: Ord, F: FnMut(&T) -> K>(&mut self, mut f: F) {
        self.sort_by(|a, b| f(a).cmp(&f(b)))
    }
    pub fn sort_by<F: FnMut(&T, &T) -> core::cmp::Ordering>(&mut self, mut cmp: F) {
        let mut i = 1;
        while i < self.n {
            let mut j = i;
            while j > 0 {
                let gt = {
                    let s: &[T] = self;
                    cmp(&s[j - 1], &s[j]) == core::cmp::Ordering::Greater
                };
                if !gt {
                    break;
                }
                self.a.swap(j - 1, j);
                j -= 1;
            }
            i += 1;
        }
    }
    pub fn sort(&mut self)
    where
        T: Ord,
    {
        self.sort_by(|a, b| a.cmp(b))
    }
    /// shadows `<[T]>::to_vec` (which would return a std Vec)
    pub fn to_vec(&self) -> Vec<T>
    where
        T: Clone,
    {
        self.clone()
    }
    pub fn as_slice(&self) -> &[T] {
        self
    }
    pub fn as_mut_slice(&mut self) -> &mut [T] {
        self
    }
    pub fn drain_all(&mut self) -> IntoIter<T> {
        core::mem::take(self).into_iter()
    }
}

impl<T> Drop for Vec<T> {
    fn drop(&mut self) {
        self.truncate(0);
    }
}
impl<T> Default for Vec<T> {
    fn default() -> Self {
        Self::new()
    }
}
impl<T> Deref for Vec<T> {
    type Target = [T];
    fn deref(&self) -> &[T] {
        unsafe { core::slice::from_raw_parts(self.a.as_ptr() as *const T, self.n) }
    }
}
impl<T> DerefMut for Vec<T> {
    fn deref_mut(&mut self) -> &mut [T] {
        unsafe { core::slice::from_raw_parts_mut(self.a.as_mut_ptr() as *mut T, self.n) }
    }
}
impl<T> AsRef<[T]> for Vec<T> {
    fn as_ref(&self) -> &[T] {
        self
    }
}
impl<T> core::borrow::Borrow<[T]> for Vec<T> {
    fn borrow(&self) -> &[T] {
        self
    }
}
impl<T: Clone> Clone for Vec<T> {
    fn clone(&self) -> Self {
        let mut v = Vec::new();
        let mut i = 0;
        while i < self.n {
            v.push(self[i].clone());
            i += 1;
        }
        v
    }
}
impl<T: core::fmt::Debug> core::fmt::Debug for Vec<T> {
    fn fmt(&self, f: &mut core::fmt::Formatter<'_>) -> core::fmt::Result {
        f.debug_list().entries(self.iter()).finish()
    }
}
impl<T: PartialEq<U>, U> PartialEq<Vec<U>> for Vec<T> {
    fn eq(&self, o: &Vec<U>) -> bool {
        self[..] == o[..]
    }
}
impl<T: PartialEq<U>, U, const N: usize> PartialEq<[U; N]> for Vec<T> {
    fn eq(&self, o: &[U; N]) -> bool {
        self[..] == o[..]
    }
}
impl<T: PartialEq<U>, U> PartialEq<[U]> for Vec<T> {
    fn eq(&self, o: &[U]) -> bool {
        self[..] == *o
    }
}
impl<T: PartialEq<U>, U> PartialEq<&[U]> for Vec<T> {
    fn eq(&self, o: &&[U]) -> bool {
        self[..] == **o
    }
}
impl<T: Eq> Eq for Vec<T> {}
impl<T: core::hash::Hash> core::hash::Hash for Vec<T> {
    fn hash<H: core::hash::Hasher>(&self, h: &mut H) {
        self[..].hash(h)
    }
}
impl<T: PartialOrd> PartialOrd for Vec<T> {
    fn partial_cmp(&self, o: &Self) -> Option<core::cmp::Ordering> {
        self[..].partial_cmp(&o[..])
    }
}
impl<T: Ord> Ord for Vec<T> {
    fn cmp(&self, o: &Self) -> core::cmp::Ordering {
        self[..].cmp(&o[..])
    }
}
impl<T, const N: usize> From<[T; N]> for Vec<T> {
    fn from(a: [T; N]) -> Self {
        Vec::from_array(a)
    }
}
impl<T: Clone> From<&[T]> for Vec<T> {
    fn from(a: &[T]) -> Self {
        let mut v = Vec::new();
        v.extend_from_slice(a);
        v
    }
}
impl<T> From<std::vec::Vec<T>> for Vec<T> {
    fn from(a: std::vec::Vec<T>) -> Self {
        a.into_iter().collect()
    }
}

pub struct IntoIter<T> {
    v: ManuallyDrop<Vec<T>>,
    i: usize,
}
impl<T> Iterator for IntoIter<T> {
    type Item = T;
    fn next(&mut self) -> Option<T> {
        if self.i < self.v.n {
            let r = unsafe { self.v.a[self.i].assume_init_read() };
            self.i += 1;
            Some(r)
        } else {
            None
        }
    }
    fn size_hint(&self) -> (usize, Option<usize>) {
        let r = self.v.n - self.i;
        (r, Some(r))
    }
}
impl<T> DoubleEndedIterator for IntoIter<T> {
    fn next_back(&mut self) -> Option<T> {
        if self.i < self.v.n {
            self.v.n -= 1;
            let k = self.v.n;
            Some(unsafe { self.v.a[k].assume_init_read() })
        } else {
            None
        }
    }
}
impl<T> ExactSizeIterator for IntoIter<T> {}
impl<T> Drop for IntoIter<T> {
    fn drop(&mut self) {
        #[cfg(not(kani))]
        while self.i < self.v.n {
            unsafe { self.v.a[self.i].assume_init_drop() };
            self.i += 1;
        }
        self.v.n = 0;
        unsafe { ManuallyDrop::drop(&mut self.v) };
    }
}
impl<T> IntoIterator for Vec<T> {
    type Item = T;
    type IntoIter = IntoIter<T>;
    fn into_iter(self) -> IntoIter<T> {
        IntoIter { v: ManuallyDrop::new(self), i: 0 }
    }
}
impl<'a, T> IntoIterator for &'a Vec<T> {
    type Item = &'a T;
    type IntoIter = core::slice::Iter<'a, T>;
    fn into_iter(self) -> core::slice::Iter<'a, T> {
        self.iter()
    }
}
impl<'a, T> IntoIterator for &'a mut Vec<T> {
    type Item = &'a mut T;
    type IntoIter = core::slice::IterMut<'a, T>;
    fn into_iter(self) -> core::slice::IterMut<'a, T> {
        self.iter_mut()
    }
}
impl<T> FromIterator<T> for Vec<T> {
    fn from_iter<I: IntoIterator<Item = T>>(it: I) -> Self {
        let mut v = Vec::new();
        for x in it {
            v.push(x);
        }
        v
    }
}
impl<T> Extend<T> for Vec<T> {
    fn extend<I: IntoIterator<Item = T>>(&mut self, it: I) {
        for x in it {
            self.push(x);
        }
    }
}
impl<'a, T: Copy + 'a> Extend<&'a T> for Vec<T> {
    fn extend<I: IntoIterator<Item = &'a T>>(&mut self, it: I) {
        for x in it {
            self.push(*x);
        }
    }
}

#[macro_export]
macro_rules! bvec {
    () => { $crate::bvec::Vec::new() };
    ($($x:expr),+ $(,)?) => { $crate::bvec::Vec::from_array([$($x),+]) };
}

#[cfg(test)]
mod tests {
    use std::rc::Rc;
    #[test]
    fn behaves_like_std_vec_on_scripts() {
        // every script of length <= 6 over {push, pop, clear, insert(0), remove(0), retain(even), sort}:
        // same observations as std Vec; Rc strong counts show that nothing is leaked or dropped twice.
        fn rec(script: &mut std::vec::Vec<u8>, depth: usize, count: &mut usize) {
            let probe = Rc::new(());
            {
                let mut m = super::Vec::<(u32, Rc<()>)>::new();
                let mut s = std::vec::Vec::<(u32, Rc<()>)>::new();
                for (i, op) in script.iter().enumerate() {
                    let i = i as u32;
                    match op {
                        0 => {
                            m.push((i, probe.clone()));
                            s.push((i, probe.clone()))
                        }
                        1 => assert_eq!(m.pop().map(|x| x.0), s.pop().map(|x| x.0)),
                        2 => {
                            m.clear();
                            s.clear()
                        }
                        3 => {
                            m.insert(0, (i, probe.clone()));
                            s.insert(0, (i, probe.clone()))
                        }
                        4 => {
                            if !s.is_empty() {
                                assert_eq!(m.remove(0).0, s.remove(0).0)
                            }
                        }
                        5 => {
                            m.retain(|x| x.0 % 2 == 0);
                            s.retain(|x| x.0 % 2 == 0)
                        }
                        _ => {
                            // stable sort on a coarse key: ties must keep their order
                            m.sort_by_key(|x| x.0 % 3);
                            s.sort_by_key(|x| x.0 % 3)
                        }
                    }
                    assert_eq!(m.len(), s.len());
                    assert_eq!(m.iter().map(|x| x.0).collect::<std::vec::Vec<_>>(), s.iter().map(|x| x.0).collect::<std::vec::Vec<_>>());
                    assert_eq!(Rc::strong_count(&probe), 1 + 2 * s.len());
                }
                let mc: std::vec::Vec<u32> = m.clone().into_iter().map(|x| x.0).collect();
                assert_eq!(mc, s.iter().map(|x| x.0).collect::<std::vec::Vec<_>>());
                let mut it = m.into_iter();
                let _ = it.next();
                drop(it);
                drop(s);
            }
            assert_eq!(Rc::strong_count(&probe), 1, "leak or double drop");
            *count += 1;
            if depth == 0 {
                return;
            }
            for op in 0..7u8 {
                script.push(op);
                rec(script, depth - 1, count);
                script.pop();
            }
        }
        let mut c = 0;
        rec(&mut vec![], 6, &mut c);
        assert!(c > 50000);
    }
}
