//! Vec-backed models of hash/ordered maps (std HashMap/HashSet, indexmap::IndexMap).
//! Contract kept: a finite function from keys to values; `IndexMap` iterates in insertion order
//! (that is indexmap's documented guarantee, which extension_list.rs relies on).
//! Storage is the boxed fixed-capacity `bvec::Vec` (capacity = harness bound).
use crate::bvec;

// ------------------------------------------------------------------------------------------------
pub struct IndexMap<K, V> {
    items: bvec::Vec<(K, V)>,
}
impl<K: Eq, V> IndexMap<K, V> {
    pub fn new() -> Self {
        IndexMap { items: bvec::Vec::new() }
    }
    pub fn len(&self) -> usize {
        self.items.len()
    }
    pub fn is_empty(&self) -> bool {
        self.items.is_empty()
    }
    fn find(&self, k: &K) -> Option<usize> {
        let mut i = 0;
        while i < self.items.len() {
            if self.items[i].0 == *k {
                return Some(i);
            }
            i += 1;
        }
        None
    }
    pub fn entry(&mut self, key: K) -> Entry<'_, K, V> {
        Entry { map: self, key }
    }
    pub fn get(&self, k: &K) -> Option<&V> {
        match self.find(k) {
            Some(i) => Some(&self.items[i].1),
            None => None,
        }
    }
    pub fn insert(&mut self, k: K, v: V) -> Option<V> {
        match self.find(&k) {
            Some(i) => Some(core::mem::replace(&mut self.items[i].1, v)),
            None => {
                self.items.push((k, v));
                None
            }
        }
    }
}
impl<K: Eq, V> Default for IndexMap<K, V> {
    fn default() -> Self {
        Self::new()
    }
}
pub struct Entry<'a, K, V> {
    map: &'a mut IndexMap<K, V>,
    key: K,
}
impl<'a, K: Eq, V> Entry<'a, K, V> {
    pub fn or_insert_with<F: FnOnce() -> V>(self, f: F) -> &'a mut V {
        let i = match self.map.find(&self.key) {
            Some(i) => i,
            None => {
                self.map.items.push((self.key, f()));
                self.map.items.len() - 1
            }
        };
        &mut self.map.items[i].1
    }
    pub fn or_insert(self, v: V) -> &'a mut V {
        self.or_insert_with(|| v)
    }
    pub fn or_default(self) -> &'a mut V
    where
        V: Default,
    {
        self.or_insert_with(V::default)
    }
}
impl<K, V> IntoIterator for IndexMap<K, V> {
    type Item = (K, V);
    type IntoIter = bvec::IntoIter<(K, V)>;
    fn into_iter(self) -> Self::IntoIter {
        self.items.into_iter()
    }
}

#[cfg(test)]
mod tests {
    #[test]
    fn indexmap_model_insertion_order() {
        let mut m = super::IndexMap::<Option<String>, Vec<u32>>::new();
        m.entry(Some("b".into())).or_default().push(1);
        m.entry(None).or_default().push(2);
        m.entry(Some("a".into())).or_default().push(3);
        m.entry(Some("b".into())).or_default().push(4);
        let got: Vec<_> = m.into_iter().collect();
        assert_eq!(got, vec![(Some("b".to_string()), vec![1, 4]), (None, vec![2]), (Some("a".to_string()), vec![3])]);
    }
}

// ------------------------------------------------------------------------------------------------
/// Model of `std::collections::HashMap<K, V>`: a finite function K -> V (no hashing, no RandomState).
/// Iteration order: insertion order (std promises no order at all; kernels whose result depends on
/// it are outside any claim made with this model).
pub struct HashMap<K, V> {
    items: bvec::Vec<(K, V)>,
}
impl<K: Eq, V> HashMap<K, V> {
    pub fn new() -> Self {
        HashMap { items: bvec::Vec::new() }
    }
    pub fn len(&self) -> usize {
        self.items.len()
    }
    pub fn is_empty(&self) -> bool {
        self.items.is_empty()
    }
    fn find<Q: ?Sized + Eq>(&self, k: &Q) -> Option<usize>
    where
        K: core::borrow::Borrow<Q>,
    {
        let mut i = 0;
        while i < self.items.len() {
            if self.items[i].0.borrow() == k {
                return Some(i);
            }
            i += 1;
        }
        None
    }
    pub fn insert(&mut self, k: K, v: V) -> Option<V> {
        match self.find(&k) {
            Some(i) => Some(core::mem::replace(&mut self.items[i].1, v)),
            None => {
                self.items.push((k, v));
                None
            }
        }
    }
    pub fn get<Q: ?Sized + Eq>(&self, k: &Q) -> Option<&V>
    where
        K: core::borrow::Borrow<Q>,
    {
        match self.find(k) {
            Some(i) => Some(&self.items[i].1),
            None => None,
        }
    }
    pub fn get_mut<Q: ?Sized + Eq>(&mut self, k: &Q) -> Option<&mut V>
    where
        K: core::borrow::Borrow<Q>,
    {
        match self.find(k) {
            Some(i) => Some(&mut self.items[i].1),
            None => None,
        }
    }
    pub fn contains_key<Q: ?Sized + Eq>(&self, k: &Q) -> bool
    where
        K: core::borrow::Borrow<Q>,
    {
        self.find(k).is_some()
    }
    pub fn remove<Q: ?Sized + Eq>(&mut self, k: &Q) -> Option<V>
    where
        K: core::borrow::Borrow<Q>,
    {
        match self.find(k) {
            // a HashMap has no order: O(1) removal, no shifting
            Some(i) => Some(self.items.swap_remove(i).1),
            None => None,
        }
    }
    pub fn clear(&mut self) {
        self.items.clear()
    }
    pub fn iter(&self) -> impl Iterator<Item = (&K, &V)> {
        self.items.iter().map(|kv| (&kv.0, &kv.1))
    }
    pub fn keys(&self) -> impl Iterator<Item = &K> {
        self.items.iter().map(|kv| &kv.0)
    }
    pub fn values(&self) -> impl Iterator<Item = &V> {
        self.items.iter().map(|kv| &kv.1)
    }
}
impl<K: Eq, V> Default for HashMap<K, V> {
    fn default() -> Self {
        Self::new()
    }
}
impl<K: core::fmt::Debug, V: core::fmt::Debug> core::fmt::Debug for HashMap<K, V> {
    fn fmt(&self, f: &mut core::fmt::Formatter<'_>) -> core::fmt::Result {
        f.debug_map().entries(self.items.iter().map(|kv| (&kv.0, &kv.1))).finish()
    }
}

#[cfg(test)]
mod hm_tests {
    #[test]
    fn hashmap_model_agrees_with_std_on_scripts() {
        // every script of length <= 5 over {insert(k), remove(k), get(k)} with k in 0..3
        fn rec(script: &mut Vec<(u8, u8)>, depth: usize, n: &mut usize) {
            let mut m = super::HashMap::<u8, usize>::new();
            let mut s = std::collections::HashMap::<u8, usize>::new();
            for (i, (op, k)) in script.iter().enumerate() {
                match op {
                    0 => assert_eq!(m.insert(*k, i), s.insert(*k, i)),
                    1 => assert_eq!(m.remove(k), s.remove(k)),
                    _ => assert_eq!(m.get(k), s.get(k)),
                }
                assert_eq!(m.len(), s.len());
                for kk in 0..3u8 {
                    assert_eq!(m.get(&kk), s.get(&kk));
                    assert_eq!(m.contains_key(&kk), s.contains_key(&kk));
                }
            }
            *n += 1;
            if depth == 0 {
                return;
            }
            for op in 0..3 {
                for k in 0..3 {
                    script.push((op, k));
                    rec(script, depth - 1, n);
                    script.pop();
                }
            }
        }
        let mut n = 0;
        rec(&mut vec![], 5, &mut n);
        assert!(n > 60000);
    }
}
