//! Vec-backed models of hash/ordered maps (std HashMap/HashSet, indexmap::IndexMap).
//! Contract kept: a finite function from keys to values; `IndexMap` iterates in insertion order
//! (that is indexmap's documented guarantee, which extension_list.rs relies on).
//! Storage is the boxed fixed-capacity `bvec::Vec` (capacity = harness bound).
use crate::bvec;

// ------------------------------------------------------------------------------------------------
pub struct IndexMap<K, V> {
    items: bvec::Vec<(K, V)>,
}
impl<K: Eq, V> IndexMap<K, V> {
    pub fn new() -> Self {
        IndexMap { items: bvec::Vec::new() }
    }
    pub fn len(&self) -> usize {
        self.items.len()
    }
    pub fn is_empty(&self) -> bool {
        self.items.is_empty()
    }
    fn find(&self, k: &K) -> Option<usize> {
        let mut i = 0;
        while i < self.items.len() {
            if self.items[i].0 == *k {
                return Some(i);
            }
            i += 1;
        }
        None
    }
    pub fn entry(&mut self, key: K) -> Entry<'_, K, V> {
        Entry { map: self, key }
    }
    pub fn get(&self, k: &K) -> Option<&V> {
        match self.find(k) {
            Some(i) => Some(&self.items[i].1),
            None => None,
        }
    }
    pub fn insert(&mut self, k: K, v: V) -> Option<V> {
        match self.find(&k) {
            Some(i) => Some(core::mem::replace(&mut self.items[i].1, v)),
            None => {
                self.items.push((k, v));
                None
            }
        }
    }
}
impl<K: Eq, V> Default for IndexMap<K, V> {
    fn default() -> Self {
        Self::new()
    }
}
pub struct Entry<'a, K, V> {
    map: &'a mut IndexMap<K, V>,
    key: K,
}
impl<'a, K: Eq, V> Entry<'a, K, V> {
    pub fn or_insert_with<F: FnOnce() -> V>(self, f: F) -> &'a mut V {
        let i = match self.map.find(&self.key) {
            Some(i) => i,
            None => {
                self.map.items.push((self.key, f()));
                self.map.items.len() - 1
            }
        };
        &mut self.map.items[i].1
    }
    pub fn or_insert(self, v: V) -> &'a mut V {
        self.or_insert_with(|| v)
    }
    pub fn or_default(self) -> &'a mut V
    where
        V: Default,
    {
        self.or_insert_with(V::default)
    }
}
impl<K, V> IntoIterator for IndexMap<K, V> {
    type Item = (K, V);
    type IntoIter = bvec::IntoIter<(K, V)>;
    fn into_iter(self) -> Self::IntoIter {
        self.items.into_iter()
    }
}

#[cfg(test)]
mod tests {
    #[test]
    fn indexmap_model_insertion_order() {
        let mut m = super::IndexMap::<Option<String>, Vec<u32>>::new();
        m.entry(Some("b".into())).or_default().push(1);
        m.entry(None).or_default().push(2);
        m.entry(Some("a".into())).or_default().push(3);
        m.entry(Some("b".into())).or_default().push(4);
        let got: Vec<_> = m.into_iter().collect();
        assert_eq!(got, vec![(Some("b".to_string()), vec![1, 4]), (None, vec![2]), (Some("a".to_string()), vec![3])]);
    }
}
