#!/bin/bash
# usage: runkani.sh <mem_gb> <timeout_s> <ws> <target_dir> <args to cargo kani...>
# Runs one `cargo kani` under an address-space cap and a wall-clock cap (image is memory-bound).
mem_gb=$1; shift
tmo=$1; shift
ws=$1; shift
tdir=$1; shift
cd "$ws" || exit 97
ulimit -v $((mem_gb * 1024 * 1024))
export CARGO_NET_OFFLINE=true
exec timeout --signal=TERM --kill-after=10 "$tmo" cargo kani --target-dir "$tdir" "$@"
