"""Texts for MANIFEST.json: what each claimed check asserts (CLAIMS) and why a property is not
claimed (NOT_APPLICABLE; used only for ids that are absent from registry.PROPS)."""

PENDING = "planned in DESIGN.md section 3 as a kernel-scope Kani check; the harness is not built at this commit, so nothing is claimed yet"

CLAIMS = {
    "C06": {
        "text": "Bounded model checking of the source-map kernels: base64_vlq round-trips through a reference Source Map v3 VLQ decoder for EVERY isize (64-bit, loop fully unwound, unwinding assertion proves the bound); MappingWriter::add_entry, for every sequence of up to 4 entries with all positions symbolic in [0,2^62), produces a token stream that a reference `mappings` decoder turns back into exactly the input segments (relative fields, ';' column reset, optional name field); utf16_len equals the UTF-16 code-unit count for every string of <= 3 Unicode scalar values. The solver covers all values inside those bounds; the tests pin 22 VLQ literals and no mapping sequence.",
        "design_ref": "DESIGN.md section 3, C06",
        "note": "Trusted: Kani/CBMC/SAT soundness; the String-as-output-sink stubs (kv/models/src/sink.rs and the token-logging stubs in mapping_h.rs) keep 'bytes appended in order'; base64_vlq is stubbed by an argument logger inside the add_entry harness (compositional: its correctness is the other harness). Precondition assumed: generated lines are non-decreasing and positions < 2^62.",
    },
}

NOT_APPLICABLE = {
    "C01": PENDING, "C02": PENDING, "C03": PENDING, "C04": PENDING, "C05": PENDING,
    "C06": PENDING, "C08": PENDING, "C09": PENDING, "C10": PENDING, "C11": PENDING,
    "C12": PENDING, "C13": PENDING, "C16": PENDING, "C17": PENDING, "C19": PENDING, "C20": PENDING,
    "C07": "The subject is the pest grammar and the Pair->AST builders; every path runs pest's VM (Rc<Vec<QueueableToken>>, stack snapshots, line_col scans). CBMC could not symbolically execute std::path on 7 concrete bytes within 10 min; there is no separable arithmetic kernel (to_pos is pest's line_col minus 1; escape decoding is a closure over Pairs). No bounded encoding of the real parser is within reach of the solver-based tools in this image.",
    "C14": "A relation between the TEXTS of two whole printers (operation_type_printer::visitor and operation_js_printer::visitor) driven through OperationPrinter::print_document, both writing through SourceMapWriter and calling the type/JSON printers; the only shared kernel (operation_variable_name) is one function used by both sides, so deciding it says nothing about agreement. Not encodable for CBMC within any budget measured here.",
    "C15": "Runs serde_json deserialization, introspection.rs, ast_to_type_system, type_system_to_ast, then checker and printers on both routes; serde plus a whole-pipeline relation, with no leaf kernel that carries the property.",
    "C18": "Process exit codes, stdout JSON and the file system: pure I/O orchestration in cli/src/{main,check,generate,output}.rs; symbolic execution would need an OS model larger than the code.",
}
