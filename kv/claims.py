"""Texts for MANIFEST.json: what each claimed check asserts (CLAIMS) and why a property is not
claimed (NOT_APPLICABLE; used only for ids that are absent from registry.PROPS)."""

PENDING = "planned in DESIGN.md section 3 as a kernel-scope Kani check; the harness is not built at this commit, so nothing is claimed yet"

CLAIMS = {
    "C06": {
        "text": "Bounded model checking of the source-map kernels: base64_vlq round-trips through a reference Source Map v3 VLQ decoder for EVERY isize (64-bit, loop fully unwound, unwinding assertion proves the bound); MappingWriter::add_entry, for every sequence of up to 4 entries with all positions symbolic in [0,2^62), produces a token stream that a reference `mappings` decoder turns back into exactly the input segments (relative fields, ';' column reset, optional name field); utf16_len equals the UTF-16 code-unit count for every string of <= 3 Unicode scalar values. The solver covers all values inside those bounds; the tests pin 22 VLQ literals and no mapping sequence.",
        "design_ref": "DESIGN.md section 3, C06",
        "note": "Trusted: Kani/CBMC/SAT soundness; the String-as-output-sink stubs (kv/models/src/sink.rs and the token-logging stubs in mapping_h.rs) keep 'bytes appended in order'; base64_vlq is stubbed by an argument logger inside the add_entry harness (compositional: its correctness is the other harness). Precondition assumed: generated lines are non-decreasing and positions < 2^62.",
    },
}

CLAIMS["C20"] = {
    "text": "Bounded model checking of crates/utils/src/relative_path.rs (file unchanged except its `use std::path` line, which imports a component-list model): for every absolute A, B of up to 2 (quick) / 3 (thorough) symbolic components from {x, y, ., ..} that do not climb above the root, resolve_relative_path(A, relative_path(A, B)) equals the POSIX lexical normalisation of B and the relative path starts with . or ..; normalize_path equals the reference normalisation, is idempotent and emits no ./.. for up to 3 (5 thorough) components; resolve_relative_path(A, r) equals normalize(dirname(A)/r) for every relative spelling r of up to 3 (4) components; no panic without the no-climb precondition.",
    "design_ref": "DESIGN.md section 3, C20",
    "note": "Trusted: Kani/CBMC/SAT; the std::path component-list model and the fixed-capacity Vec model (both validated natively against the real std types at setup). Preconditions: A and B name files, B is not a directory containing A, no climbing above the root.",
}
_TC = {
    "design_ref": "DESIGN.md section 3, C03/C04",
    "note": "Kernel scope: ONE of the ~25 implemented rules (variable usage typing, AreTypesCompatible) is decided; check_type_compatibility is generic in the name type and is instantiated with an interned-name type (it uses names only through ==). Trusted: Kani/CBMC/SAT; Box targets live in a typed arena built by the harness.",
}
CLAIMS["C03"] = dict(_TC, text="Bounded model checking of the private kernel checker::common::check_type_compatibility: for every pair (variable type, location type) of well-formed wrapper nestings of depth <= 2 (quick) / 3 (thorough) over symbolic names, acceptance implies the specification's AreTypesCompatible (reference written from spec section 5.8.5 on an independent representation). The 38 unit tests pin one negative per error kind; the solver covers every nesting pair in the bound.")
CLAIMS["C04"] = dict(_TC, text="Converse direction of the same kernel: for every pair of well-formed wrapper nestings of depth <= 2 (quick) / 3 (thorough) over symbolic names, AreTypesCompatible(variableType, locationType) implies that check_type_compatibility accepts (no false alarm from the variable-usage rule).")

NOT_APPLICABLE = {
    "C01": PENDING, "C02": PENDING, "C03": PENDING, "C04": PENDING, "C05": PENDING,
    "C06": PENDING, "C08": PENDING, "C09": PENDING, "C10": PENDING,
    "C11": "Attempted and measured (harnesses kept under kv/harness/semantics): merge_scalar_definition at original<=1 + 2 extensions<=1 entries ran CBMC out of 40 GB in SSA conversion; ExtensionList with 2 operations ran out of 24 GB; the code is iterator-adaptor chains (chain/flat_map/filter_map/collect::<Result<Vec>>) over heap structs with Option<String> keys and a std sort, i.e. exactly the heap- and pointer-rich shape bit-blasting BMC cannot digest here. No bounded encoding of the real code is within reach, so nothing is claimed.",
    "C12": PENDING, "C13": PENDING, "C16": PENDING, "C17": PENDING, "C19": PENDING, "C20": PENDING,
    "C07": "The subject is the pest grammar and the Pair->AST builders; every path runs pest's VM (Rc<Vec<QueueableToken>>, stack snapshots, line_col scans). CBMC could not symbolically execute std::path on 7 concrete bytes within 10 min; there is no separable arithmetic kernel (to_pos is pest's line_col minus 1; escape decoding is a closure over Pairs). No bounded encoding of the real parser is within reach of the solver-based tools in this image.",
    "C14": "A relation between the TEXTS of two whole printers (operation_type_printer::visitor and operation_js_printer::visitor) driven through OperationPrinter::print_document, both writing through SourceMapWriter and calling the type/JSON printers; the only shared kernel (operation_variable_name) is one function used by both sides, so deciding it says nothing about agreement. Not encodable for CBMC within any budget measured here.",
    "C15": "Runs serde_json deserialization, introspection.rs, ast_to_type_system, type_system_to_ast, then checker and printers on both routes; serde plus a whole-pipeline relation, with no leaf kernel that carries the property.",
    "C18": "Process exit codes, stdout JSON and the file system: pure I/O orchestration in cli/src/{main,check,generate,output}.rs; symbolic execution would need an OS model larger than the code.",
}
