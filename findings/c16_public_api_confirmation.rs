//! Public-API confirmation of the two C16 findings recorded in known_findings.json, on the
//! UNCHANGED tree. Put this file at crates/printer/tests/ in a scratch worktree and run
//!   cargo test -p nitrogql-printer --test c16_public_api_confirmation --offline -- --nocapture
//! Each test prints a StringValue through the public GraphQLPrinter trait and shows that the
//! emitted text is not one GraphQL string token / not the same value. They FAIL on the current
//! tree (that is the defect) and are kept here as the reproducer a maintainer can run.
use nitrogql_ast::{base::Pos, value::StringValue};
use nitrogql_printer::GraphQLPrinter;
use sourcemap_writer::JustWriter;

fn print(value: &str) -> String {
    let node = StringValue { position: Pos::builtin(), value: value.to_string() };
    let mut out = String::new();
    let mut writer = JustWriter::new(&mut out);
    node.print_graphql(&mut writer);
    out
}

#[test]
fn single_line_backslash_is_escaped() {
    // solver counterexample of print_string_single_line_n2: the one-character string `\`
    assert_eq!(print("\\"), "\"\\\\\"", "a lone backslash must be printed as \"\\\\\"");
}

#[test]
fn single_line_quote_is_escaped() {
    assert_eq!(print("a\"b"), "\"a\\\"b\"");
}

#[test]
fn block_string_ending_in_quote_is_one_token() {
    // solver counterexample class of print_string_block_n2_known_trailing_quote_backslash
    let out = print("a\n\"");
    // a block string token ends at the FIRST unescaped `"""` after the opening delimiter
    let body = &out[3..];
    let first_close = body.find("\"\"\"").expect("no closing delimiter");
    assert_eq!(first_close + 3, body.len(), "closing delimiter must end the literal, got {out:?}");
}

#[test]
fn block_string_ending_in_backslash_terminates() {
    let out = print("\n\\");
    assert!(!out.ends_with("\\\"\"\""), "trailing backslash escapes the closing delimiter: {out:?}");
}
